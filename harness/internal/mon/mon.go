// Package mon is the shared runtime-monitoring driver of the /verif harness.
//
// One worker binary per property.  The same binary is the *parent* (spawns shard
// children, aggregates their results, parses race logs, writes the evidence file,
// prints VIOLATION / KNOWN-FINDING lines and decides the exit code) and the *child*
// (runs the cases of one shard, journals the case it is about to run so that a
// process-fatal error is attributable, recovers panics, runs the in-process deadlock
// rule).  Nothing here looks at wall-clock time to decide a verdict.
package mon

import (
	"bufio"
	"crypto/sha256"
	"encoding/binary"
	"encoding/hex"
	"encoding/json"
	"flag"
	"fmt"
	"math/rand"
	"os"
	"os/exec"
	"path/filepath"
	"regexp"
	"runtime"
	"runtime/debug"
	"sort"
	"strconv"
	"strings"
	"sync"
	"syscall"
	"time"
)

// Options are static per worker.
type Options struct {
	Property    string
	Level       string // exploration | fault_enumeration
	Rule        string // how cases are generated; what makes one non-trivial
	Assumptions []string
	// Shards: number of child processes (0 = min(16, NumCPU)).
	Shards int
	// ChildTimeout is a watchdog only; firing is inconclusive, never a violation.
	ChildTimeoutQuick    time.Duration
	ChildTimeoutThorough time.Duration
	// RacePkgs: package path fragments (under pkg/) whose frames make a race report count
	// for this property; empty = any lisk-engine frame.
	RacePkgs []string
	// MaxRestarts per shard after a crashed case (default 8).
	MaxRestarts int
	// Exhaustive is reported in the evidence if the worker enumerates a finite space fully.
	Exhaustive bool
	// MinNontrivial: run is "broken" (exit 2) if fewer distinct non-trivial cases were seen.
	MinNontrivial int
}

const repoPrefix = "github.com/LiskHQ/lisk-engine/pkg/"

func root() string {
	if r := os.Getenv("VERIF_ROOT"); r != "" {
		return r
	}
	return "/verif"
}

// outRoot is where evidence/ and replay/ are written (VERIF_OUT overrides, used when a
// check is pointed at a scratch copy of the repository).
func outRoot() string {
	if r := os.Getenv("VERIF_OUT"); r != "" {
		return r
	}
	return root()
}

type violation struct {
	Key     string `json:"key"`
	What    string `json:"what"`
	Stream  string `json:"stream"`
	Index   int    `json:"index"`
	Witness any    `json:"witness,omitempty"`
}

type result struct {
	Evaluations  int64            `json:"evaluations"`
	Nontrivial   []string         `json:"nontrivial"` // hashed keys
	Samples      []any            `json:"samples"`
	Counters     map[string]int64 `json:"counters"`
	Violations   []violation      `json:"violations"`
	Inconclusive map[string]int64 `json:"inconclusive"`
	Done         bool             `json:"done"`
}

// Ctx is what a worker body sees (child side).
type Ctx struct {
	opt       Options
	tier      string
	seed      int64
	shard     int
	shards    int
	mu        sync.Mutex
	res       result
	nonSet    map[string]struct{}
	journal   *os.File
	stage     *os.File
	outPath   string
	resumeS   string // resume after this stream/index (exclusive)
	resumeI   int
	resuming  bool
	onlyS     string // replay filter
	onlyI     int
	replay    bool
	sampleN   map[string]int
	lastFlush time.Time
}

func (c *Ctx) Tier() string { return c.tier }
func (c *Ctx) Quick() bool  { return c.tier != "thorough" }
func (c *Ctx) Seed() int64  { return c.seed }
func (c *Ctx) Shard() int   { return c.shard }
func (c *Ctx) Shards() int  { return c.shards }
func (c *Ctx) Replay() bool { return c.replay }
func (c *Ctx) N(q, t int) int {
	n := t
	if c.Quick() {
		n = q
	}
	// sanitizer passes of the quick tier run a fixed fraction of the case counts
	if d, err := strconv.Atoi(os.Getenv("VERIF_COUNT_DIV")); err == nil && d > 1 && n > 1 {
		n = (n + d - 1) / d
		if n < 2 {
			n = 2
		}
	}
	return n
}

// Case is one generated case.
type Case struct {
	Stream string
	Index  int
	R      *rand.Rand
	c      *Ctx
}

func mix(parts ...string) int64 {
	h := sha256.New()
	for _, p := range parts {
		h.Write([]byte(p))
		h.Write([]byte{0})
	}
	s := h.Sum(nil)
	return int64(binary.BigEndian.Uint64(s[:8]) & 0x7fffffffffffffff)
}

// RNG returns the deterministic generator for (seed, property, stream, index).
func (c *Ctx) RNG(stream string, index int) *rand.Rand {
	return rand.New(rand.NewSource(mix(strconv.FormatInt(c.seed, 10), c.opt.Property, stream, strconv.Itoa(index))))
}

func hashKey(k string) string {
	s := sha256.Sum256([]byte(k))
	return hex.EncodeToString(s[:8])
}

// Cases runs fn for every case index of this shard in [0,total).
func (c *Ctx) Cases(stream string, total int, fn func(k *Case)) {
	for i := 0; i < total; i++ {
		if c.replay {
			if stream != c.onlyS || i != c.onlyI {
				continue
			}
		} else {
			if i%c.shards != c.shard {
				continue
			}
			if c.resuming {
				if stream == c.resumeS && i == c.resumeI {
					c.resuming = false
				}
				continue
			}
		}
		c.runCase(stream, i, fn)
	}
}

// One runs a single named case on shard 0 only (for scenario-style, non-indexed work).
func (c *Ctx) One(stream string, fn func(k *Case)) {
	c.Cases(stream, 1, fn)
}

func (c *Ctx) runCase(stream string, i int, fn func(k *Case)) {
	k := &Case{Stream: stream, Index: i, R: c.RNG(stream, i), c: c}
	c.writeJournal(stream, i)
	c.mu.Lock()
	// periodic flush so that a later process-fatal error does not lose the counts
	// (wall-clock is used for flushing only, never for a verdict)
	if now := time.Now(); now.Sub(c.lastFlush) > time.Second {
		c.lastFlush = now
		c.flushLocked()
	}
	c.res.Evaluations++
	c.mu.Unlock()
	defer func() {
		if r := recover(); r != nil {
			st := string(debug.Stack())
			k.Violation("panic:"+stream+":"+PanicKey(r, st), fmt.Sprintf("panic: %v", r), map[string]any{"panic": fmt.Sprint(r), "stack": trimStack(st)})
		}
	}()
	fn(k)
}

func (c *Ctx) writeJournal(stream string, i int) {
	if c.journal == nil {
		return
	}
	line := fmt.Sprintf("%-120s\n", stream+" "+strconv.Itoa(i))
	c.journal.WriteAt([]byte(line), 0)
}

// Stage records the raw input about to be handed to the code under test, so that a
// process-fatal error (checkptr, cgo SIGSEGV, ASan) is still attributable.
func (k *Case) Stage(b []byte) {
	c := k.c
	if c.stage == nil {
		return
	}
	c.stage.Truncate(0)
	c.stage.WriteAt(b, 0)
}

func (k *Case) Eval(n int) { k.c.mu.Lock(); k.c.res.Evaluations += int64(n); k.c.mu.Unlock() }

// Nontrivial marks the case (or a sub-case) as non-trivial under a canonical key; keys
// are deduplicated across the whole run.
func (k *Case) Nontrivial(key string) { k.c.Nontrivial(k.Stream + "/" + key) }
func (c *Ctx) Nontrivial(key string) {
	h := hashKey(key)
	c.mu.Lock()
	if _, ok := c.nonSet[h]; !ok {
		c.nonSet[h] = struct{}{}
	}
	c.mu.Unlock()
}

// Sample keeps up to 2 samples per stream per shard.
func (k *Case) Sample(v any) {
	c := k.c
	c.mu.Lock()
	defer c.mu.Unlock()
	if c.sampleN[k.Stream] >= 2 {
		return
	}
	c.sampleN[k.Stream]++
	c.res.Samples = append(c.res.Samples, map[string]any{"stream": k.Stream, "index": k.Index, "case": v})
}

func (k *Case) Count(name string, n int) { k.c.Count(name, n) }
func (c *Ctx) Count(name string, n int) {
	c.mu.Lock()
	c.res.Counters[name] += int64(n)
	c.mu.Unlock()
}

func (k *Case) Inconclusive(why string) {
	k.c.mu.Lock()
	k.c.res.Inconclusive[why]++
	k.c.mu.Unlock()
}

// Violation records a violation with a finding key built from *what failed*.
func (k *Case) Violation(key, what string, witness any) {
	c := k.c
	c.mu.Lock()
	defer c.mu.Unlock()
	// keep at most 5 witnesses per key per shard
	n := 0
	for _, v := range c.res.Violations {
		if v.Key == key {
			n++
		}
	}
	c.res.Counters["violation_events"]++
	if n >= 3 {
		return
	}
	c.res.Violations = append(c.res.Violations, violation{Key: key, What: what, Stream: k.Stream, Index: k.Index, Witness: witness})
	c.flushLocked()
}

func (c *Ctx) flushLocked() {
	if c.outPath == "" {
		return
	}
	c.res.Nontrivial = c.res.Nontrivial[:0]
	for h := range c.nonSet {
		c.res.Nontrivial = append(c.res.Nontrivial, h)
	}
	b, _ := json.Marshal(&c.res)
	tmp := c.outPath + ".tmp"
	if os.WriteFile(tmp, b, 0o644) == nil {
		os.Rename(tmp, c.outPath)
	}
}

// Flush writes partial results (children call it before risky cases if they want).
func (c *Ctx) Flush() { c.mu.Lock(); c.flushLocked(); c.mu.Unlock() }

var digits = regexp.MustCompile(`[0-9]+`)
var hexaddr = regexp.MustCompile(`0x[0-9a-f]+`)

// PanicKey gives a stable key for a recovered panic: class of message + innermost repo frame.
func PanicKey(r any, stack string) string {
	msg := fmt.Sprint(r)
	msg = hexaddr.ReplaceAllString(msg, "X")
	msg = digits.ReplaceAllString(msg, "N")
	if len(msg) > 60 {
		msg = msg[:60]
	}
	return InnermostRepoFrame(stack) + ":" + msg
}

// InnermostRepoFrame returns the first function in a debug.Stack()/goroutine dump that
// belongs to lisk-engine (skipping runtime, harness).
func InnermostRepoFrame(stack string) string {
	for _, ln := range strings.Split(stack, "\n") {
		ln = strings.TrimSpace(ln)
		if strings.HasPrefix(ln, repoPrefix) {
			f := strings.TrimPrefix(ln, repoPrefix)
			if i := strings.LastIndex(f, "("); i > 0 {
				f = f[:i]
			}
			return f
		}
	}
	return "?"
}

func trimStack(st string) string {
	lines := strings.Split(st, "\n")
	if len(lines) > 40 {
		lines = lines[:40]
	}
	return strings.Join(lines, "\n")
}

// ---------------------------------------------------------------------------------------
// Deadlock rule (§3.7): a call that does not return within a generous watchdog is a
// deadlock only if two goroutine dumps taken 2 s apart show the same repo goroutines
// parked at the same frames in blocking states; otherwise it is inconclusive.

var blockedStates = []string{"semacquire", "sync.Mutex.Lock", "sync.RWMutex.Lock", "sync.RWMutex.RLock", "chan send", "chan receive", "select", "sync.WaitGroup.Wait", "sync.Cond.Wait"}

type gor struct {
	id     string
	state  string
	frames []string // repo frames, innermost first
	all    string
}

func parseGoroutines(dump string) []gor {
	var out []gor
	for _, blk := range strings.Split(dump, "\n\n") {
		lines := strings.Split(strings.TrimSpace(blk), "\n")
		if len(lines) == 0 || !strings.HasPrefix(lines[0], "goroutine ") {
			continue
		}
		st := ""
		if i := strings.Index(lines[0], "["); i >= 0 {
			st = strings.TrimSuffix(lines[0][i+1:], "]:")
			if j := strings.Index(st, ","); j >= 0 {
				st = st[:j]
			}
		}
		id := strings.TrimPrefix(lines[0], "goroutine ")
		if j := strings.Index(id, " "); j > 0 {
			id = id[:j]
		}
		g := gor{id: id, state: st, all: blk}
		for _, ln := range lines[1:] {
			ln = strings.TrimSpace(ln)
			if strings.HasPrefix(ln, repoPrefix) {
				f := strings.TrimPrefix(ln, repoPrefix)
				if i := strings.LastIndex(f, "("); i > 0 {
					f = f[:i]
				}
				g.frames = append(g.frames, f)
			}
		}
		if len(g.frames) > 0 {
			out = append(out, g)
		}
	}
	return out
}

func isBlocked(state string) bool {
	for _, b := range blockedStates {
		if strings.HasPrefix(state, b) {
			return true
		}
	}
	return false
}

func allStacks() string {
	buf := make([]byte, 1<<20)
	for {
		n := runtime.Stack(buf, true)
		if n < len(buf) {
			return string(buf[:n])
		}
		buf = make([]byte, 2*len(buf))
	}
}

// identity is the stability signature: the same goroutines (by id) parked in the same state at
// the same frames. A retry loop that keeps spawning short-lived goroutines (a livelock) has
// the same frames in every dump but different goroutine ids, and is therefore not "stable".
func identity(gs []gor) string {
	var parts []string
	for _, g := range gs {
		parts = append(parts, g.id+"/"+g.state+"/"+strings.Join(g.frames, "<"))
	}
	sort.Strings(parts)
	return strings.Join(parts, "\n")
}

func sig(gs []gor) (string, bool) {
	var parts []string
	blocked := true
	for _, g := range gs {
		if !isBlocked(g.state) {
			blocked = false
		}
		n := len(g.frames)
		if n > 4 {
			n = 4
		}
		parts = append(parts, strings.Join(g.frames[:n], "<"))
	}
	sort.Strings(parts)
	// collapse duplicates
	var u []string
	for i, p := range parts {
		if i == 0 || p != parts[i-1] {
			u = append(u, p)
		}
	}
	return strings.Join(u, " || "), blocked
}

// StableBlocked applies the deadlock rule to the current process: two goroutine dumps `wait`
// apart; stable = the same lisk-engine/harness goroutines (by id) are parked in a blocking state at
// identical frames in both. Returns the signature of the blocked frames, the verdict and a dump.
func StableBlocked(wait time.Duration) (string, bool, string) {
	d1 := allStacks()
	time.Sleep(wait)
	d2 := allStacks()
	g1, g2 := parseGoroutines(d1), parseGoroutines(d2)
	s1, b1 := sig(g1)
	s2, b2 := sig(g2)
	return s1, s1 == s2 && b1 && b2 && s1 != "" && identity(g1) == identity(g2), trimDump(d2)
}

// Watch runs fn under the deadlock rule. Returns true if fn returned. If it did not, the
// case gets a deadlock violation (stable, all repo goroutines parked) or an inconclusive
// mark; in both cases the process is considered wedged and exits after flushing, and the
// parent restarts the shard after this case.
func (k *Case) Watch(name string, watchdog time.Duration, fn func()) bool {
	done := make(chan struct{})
	var pv any
	var pst string
	go func() {
		defer func() {
			if r := recover(); r != nil {
				pv = r
				pst = string(debug.Stack())
			}
			close(done)
		}()
		fn()
	}()
	select {
	case <-done:
		if pv != nil {
			k.Violation("panic:"+k.Stream+":"+PanicKey(pv, pst), fmt.Sprintf("panic in %s: %v", name, pv), map[string]any{"panic": fmt.Sprint(pv), "stack": trimStack(pst)})
		}
		return true
	case <-time.After(watchdog):
	}
	d1 := allStacks()
	select {
	case <-done:
		k.Inconclusive("slow:" + name)
		return true
	case <-time.After(5 * time.Second):
	}
	d2 := allStacks()
	g1, g2 := parseGoroutines(d1), parseGoroutines(d2)
	s1, b1 := sig(g1)
	s2, b2 := sig(g2)
	if s1 == s2 && b1 && b2 && s1 != "" && identity(g1) == identity(g2) {
		k.Violation("deadlock:"+s1, "call "+name+" never returned; all lisk-engine goroutines the same goroutines parked at identical frames in two dumps 5s apart", map[string]any{"op": name, "blocked": s1, "dump": trimDump(d2)})
	} else {
		k.Inconclusive("watchdog-unstable:" + name)
	}
	k.c.mu.Lock()
	k.c.flushLocked()
	k.c.mu.Unlock()
	os.Exit(3)
	return false
}

func trimDump(d string) string {
	var keep []string
	for _, g := range parseGoroutines(d) {
		lines := strings.Split(g.all, "\n")
		if len(lines) > 16 {
			lines = lines[:16]
		}
		keep = append(keep, strings.Join(lines, "\n"))
		if len(keep) >= 8 {
			break
		}
	}
	return strings.Join(keep, "\n\n")
}

// ---------------------------------------------------------------------------------------
// Main

type knownEntry struct {
	Status   string `json:"status"` // known | fixed
	Property string `json:"property"`
	Key      string `json:"key"`
	What     string `json:"what"`
	Commit   string `json:"commit,omitempty"`
}

func loadKnown() []knownEntry {
	var out []knownEntry
	f, err := os.Open(filepath.Join(root(), "known_findings.jsonl"))
	if err != nil {
		return nil
	}
	defer f.Close()
	sc := bufio.NewScanner(f)
	sc.Buffer(make([]byte, 1<<20), 1<<20)
	for sc.Scan() {
		ln := strings.TrimSpace(sc.Text())
		if ln == "" || strings.HasPrefix(ln, "#") {
			continue
		}
		var e knownEntry
		if json.Unmarshal([]byte(ln), &e) == nil {
			out = append(out, e)
		}
	}
	return out
}

// Main is the entry point of every worker.
func Main(opt Options, body func(c *Ctx)) {
	tier := flag.String("tier", envOr("VERIF_TIER", "quick"), "quick|thorough")
	seedDef, _ := strconv.ParseInt(envOr("VERIF_SEED", "1"), 10, 64)
	seed := flag.Int64("seed", seedDef, "seed")
	replay := flag.String("replay", "", "replay file")
	shard := flag.Int("shard", -1, "(internal) child shard")
	shards := flag.Int("shards", 0, "(internal) shard count")
	out := flag.String("out", "", "(internal) child result file")
	resume := flag.String("resume", "", "(internal) resume after stream#index")
	flag.Parse()
	if *tier != "thorough" {
		*tier = "quick"
	}
	if opt.MaxRestarts == 0 {
		opt.MaxRestarts = 8
	}
	if opt.MinNontrivial == 0 {
		opt.MinNontrivial = 2
	}
	if *replay != "" {
		os.Exit(runReplay(opt, *replay, body))
	}
	if *shard >= 0 {
		runChild(opt, *tier, *seed, *shard, *shards, *out, *resume, body)
		return
	}
	os.Exit(runParent(opt, *tier, *seed))
}

func envOr(k, d string) string {
	if v := os.Getenv(k); v != "" {
		return v
	}
	return d
}

func newCtx(opt Options, tier string, seed int64, shard, shards int) *Ctx {
	return &Ctx{opt: opt, tier: tier, seed: seed, shard: shard, shards: shards,
		res:    result{Counters: map[string]int64{}, Inconclusive: map[string]int64{}},
		nonSet: map[string]struct{}{}, sampleN: map[string]int{}}
}

func runChild(opt Options, tier string, seed int64, shard, shards int, out, resume string, body func(c *Ctx)) {
	c := newCtx(opt, tier, seed, shard, shards)
	c.outPath = out
	if out != "" {
		c.journal, _ = os.OpenFile(out+".journal", os.O_CREATE|os.O_RDWR|os.O_TRUNC, 0o644)
		c.stage, _ = os.OpenFile(out+".stage", os.O_CREATE|os.O_RDWR|os.O_TRUNC, 0o644)
	}
	if resume != "" {
		if i := strings.LastIndex(resume, "#"); i > 0 {
			c.resumeS = resume[:i]
			c.resumeI, _ = strconv.Atoi(resume[i+1:])
			c.resuming = true
		}
	}
	body(c)
	c.mu.Lock()
	c.res.Done = true
	c.flushLocked()
	c.mu.Unlock()
}

func runReplay(opt Options, file string, body func(c *Ctx)) int {
	b, err := os.ReadFile(file)
	if err != nil {
		fmt.Println("replay: cannot read", file, err)
		return 2
	}
	var rp struct {
		Property string `json:"property"`
		Tier     string `json:"tier"`
		Seed     int64  `json:"seed"`
		Shards   int    `json:"shards"`
		Stream   string `json:"stream"`
		Index    int    `json:"index"`
		Key      string `json:"key"`
	}
	if err := json.Unmarshal(b, &rp); err != nil {
		fmt.Println("replay: bad file", err)
		return 2
	}
	if rp.Shards <= 0 {
		rp.Shards = 1
	}
	c := newCtx(opt, rp.Tier, rp.Seed, rp.Index%rp.Shards, rp.Shards)
	c.replay = true
	c.onlyS, c.onlyI = rp.Stream, rp.Index
	body(c)
	if c.res.Evaluations == 0 {
		fmt.Printf("replay: case %s#%d was not reached (race/crash witnesses are replayed by re-running the check)\n", rp.Stream, rp.Index)
		return 2
	}
	if len(c.res.Violations) == 0 {
		fmt.Printf("replay: case %s#%d executed, no violation\n", rp.Stream, rp.Index)
		return 0
	}
	for _, v := range c.res.Violations {
		fmt.Printf("replay: reproduced key=%s what=%s\n", v.Key, v.What)
		if wb, err := json.MarshalIndent(v.Witness, "", " "); err == nil {
			if len(wb) > 6000 {
				wb = wb[:6000]
			}
			fmt.Printf("witness: %s\n", wb)
		}
	}
	fmt.Printf("VIOLATION property=%s replay=%s\n", opt.Property, file)
	return 1
}

type shardState struct {
	id       int
	res      result
	restarts int
	resume   string
	crashed  []violation
	timedOut bool
}

func runParent(opt Options, tier string, seed int64) int {
	start := time.Now()
	n := opt.Shards
	if n <= 0 {
		n = runtime.NumCPU()
		if n > 16 {
			n = 16
		}
	}
	if s := os.Getenv("VERIF_SHARDS"); s != "" {
		if v, err := strconv.Atoi(s); err == nil && v > 0 {
			n = v
		}
	}
	tmo := opt.ChildTimeoutQuick
	if tier == "thorough" {
		tmo = opt.ChildTimeoutThorough
	}
	if tmo == 0 {
		if tier == "thorough" {
			tmo = 3 * time.Hour
		} else {
			tmo = 20 * time.Minute
		}
	}
	work, err := os.MkdirTemp("/dev/shm", "verif-"+opt.Property+"-")
	if err != nil {
		work, err = os.MkdirTemp("", "verif-"+opt.Property+"-")
		if err != nil {
			fmt.Println("cannot create work dir:", err)
			return 2
		}
	}
	keepWork := false
	defer func() {
		if !keepWork {
			os.RemoveAll(work)
		}
	}()
	exe, _ := os.Executable()
	states := make([]*shardState, n)
	var wg sync.WaitGroup
	for i := 0; i < n; i++ {
		states[i] = &shardState{id: i}
		wg.Add(1)
		go func(s *shardState) {
			defer wg.Done()
			runShard(opt, exe, work, tier, seed, n, tmo, s)
		}(states[i])
	}
	wg.Wait()

	// aggregate
	agg := result{Counters: map[string]int64{}, Inconclusive: map[string]int64{}}
	non := map[string]struct{}{}
	incomplete := 0
	for _, s := range states {
		agg.Evaluations += s.res.Evaluations
		for _, h := range s.res.Nontrivial {
			non[h] = struct{}{}
		}
		if len(agg.Samples) < 6 {
			for _, sm := range s.res.Samples {
				if len(agg.Samples) < 6 {
					agg.Samples = append(agg.Samples, sm)
				}
			}
		}
		for k, v := range s.res.Counters {
			agg.Counters[k] += v
		}
		for k, v := range s.res.Inconclusive {
			agg.Inconclusive[k] += v
		}
		agg.Violations = append(agg.Violations, s.res.Violations...)
		agg.Violations = append(agg.Violations, s.crashed...)
		if !s.res.Done {
			incomplete++
		}
		if s.timedOut {
			agg.Inconclusive["child-timeout"]++
		}
	}
	// race logs
	racePkgs := opt.RacePkgs
	if sc := os.Getenv("VERIF_RACE_SCOPE"); sc != "" {
		// sanitizer passes of workers that were not written for the race detector: only reports
		// with a frame in the named packages are verdicts ("none": count reports, judge none)
		if sc == "none" {
			racePkgs = []string{"\x00none"}
		} else {
			racePkgs = strings.Split(sc, ",")
		}
	}
	races := ParseRaceLogs(work, racePkgs)
	agg.Counters["race_reports_total"] += int64(races.Total)
	agg.Counters["race_reports_outside_scope"] += int64(races.Outside)
	for _, r := range races.Reports {
		agg.Violations = append(agg.Violations, violation{Key: "race:" + r.Key, What: "data race reported by the Go race detector", Stream: "race", Index: 0, Witness: map[string]any{"count": r.Count, "report": r.Text}})
	}

	// group violations by key
	known := loadKnown()
	pass := os.Getenv("VERIF_PASS")
	type grp struct {
		key   string
		items []violation
	}
	idx := map[string]*grp{}
	var order []string
	for _, v := range agg.Violations {
		g, ok := idx[v.Key]
		if !ok {
			g = &grp{key: v.Key}
			idx[v.Key] = g
			order = append(order, v.Key)
		}
		g.items = append(g.items, v)
	}
	sort.Strings(order)
	exit := 0
	nViol := 0
	nKnown := 0
	var knownSeen []string
	os.MkdirAll(filepath.Join(outRoot(), "replay"), 0o755)
	var lines []string
	for _, key := range order {
		g := idx[key]
		isKnown := false
		what := g.items[0].What
		for _, e := range known {
			if e.Status == "known" && e.Property == opt.Property && e.Key == key {
				isKnown = true
				what = e.What
			}
		}
		if isKnown {
			nKnown++
			knownSeen = append(knownSeen, key)
			lines = append(lines, fmt.Sprintf("KNOWN-FINDING: property=%s %s [key=%s]", opt.Property, what, key))
			continue
		}
		nViol++
		exit = 1
		v := g.items[0]
		rp := map[string]any{"property": opt.Property, "tier": tier, "seed": seed, "shards": n, "stream": v.Stream, "index": v.Index, "key": key, "what": v.What, "witness": v.Witness, "occurrences": len(g.items)}
		b, _ := json.MarshalIndent(rp, "", " ")
		passTag := ""
		if pass != "" {
			passTag = "-" + pass
			rp["sanitizer_pass"] = pass
			b, _ = json.MarshalIndent(rp, "", " ")
		}
		path := filepath.Join(outRoot(), "replay", opt.Property+passTag+"-"+hashKey(key)+".json")
		os.WriteFile(path, b, 0o644)
		lines = append(lines, fmt.Sprintf("violation key=%s what=%s", key, v.What))
		lines = append(lines, fmt.Sprintf("VIOLATION property=%s replay=%s", opt.Property, path))
	}

	// evidence
	cov := map[string]any{
		"evaluations":         agg.Evaluations,
		"distinct_nontrivial": len(non),
		"rule":                opt.Rule,
		"samples":             agg.Samples,
		"counters":            agg.Counters,
		"inconclusive":        agg.Inconclusive,
		"shards":              n,
		"shards_incomplete":   incomplete,
		"known_findings_seen": knownSeen,
	}
	if opt.Exhaustive {
		cov["exhaustive"] = true
	}
	if len(agg.Samples) == 0 {
		cov["samples"] = []any{}
	}
	ev := map[string]any{
		"property_id": opt.Property,
		"tier":        tier,
		"seed":        seed,
		"level":       opt.Level,
		"coverage":    cov,
		"assumptions": opt.Assumptions,
		"wall_s":      time.Since(start).Seconds(),
		"violations":  nViol,
	}
	evPath := filepath.Join(outRoot(), "evidence", opt.Property+".json")
	if pass != "" {
		// a sanitizer pass (same worker, other build: -race/checkptr, -asan) adds its own
		// observations to the evidence the main pass has just written
		var main map[string]any
		if b, err := os.ReadFile(evPath); err == nil && json.Unmarshal(b, &main) == nil && main["coverage"] != nil {
			mc, _ := main["coverage"].(map[string]any)
			sp, _ := mc["sanitizer_passes"].(map[string]any)
			if sp == nil {
				sp = map[string]any{}
			}
			sp[pass] = map[string]any{
				"build": os.Getenv("VERIF_PASS_BUILD"), "tier_counts": tier, "count_divisor": os.Getenv("VERIF_COUNT_DIV"), "seed": seed,
				"evaluations": agg.Evaluations, "distinct_nontrivial": len(non), "counters": agg.Counters,
				"inconclusive": agg.Inconclusive, "violations": nViol, "shards_incomplete": incomplete,
				"wall_s": time.Since(start).Seconds(),
			}
			mc["sanitizer_passes"] = sp
			if v, ok := main["violations"].(float64); ok {
				main["violations"] = int(v) + nViol
			}
			if w, ok := main["wall_s"].(float64); ok {
				main["wall_s"] = w + time.Since(start).Seconds()
			}
			ev = main
		}
	}
	b, _ := json.MarshalIndent(ev, "", " ")
	os.MkdirAll(filepath.Join(outRoot(), "evidence"), 0o755)
	os.WriteFile(evPath, b, 0o644)

	for _, l := range lines {
		fmt.Println(l)
	}
	if pass != "" {
		fmt.Printf("[sanitizer pass %s] ", pass)
	}
	fmt.Printf("%s %s seed=%d: evaluations=%d distinct_nontrivial=%d violations=%d known=%d inconclusive=%v wall=%.1fs\n",
		opt.Property, tier, seed, agg.Evaluations, len(non), nViol, nKnown, agg.Inconclusive, time.Since(start).Seconds())
	if exit == 0 {
		if incomplete > 0 {
			fmt.Printf("BROKEN: %d shard(s) did not complete (see %s)\n", incomplete, work)
			keepWork = true
			return 2
		}
		if agg.Evaluations == 0 || len(non) < opt.MinNontrivial {
			fmt.Printf("BROKEN: the monitors observed too little (evaluations=%d distinct_nontrivial=%d < %d)\n", agg.Evaluations, len(non), opt.MinNontrivial)
			return 2
		}
	}
	return exit
}

func runShard(opt Options, exe, work, tier string, seed int64, n int, tmo time.Duration, s *shardState) {
	for {
		out := filepath.Join(work, fmt.Sprintf("shard%d.r%d.json", s.id, s.restarts))
		logp := filepath.Join(work, fmt.Sprintf("shard%d.r%d.log", s.id, s.restarts))
		args := []string{"-tier", tier, "-seed", strconv.FormatInt(seed, 10), "-shard", strconv.Itoa(s.id), "-shards", strconv.Itoa(n), "-out", out}
		if s.resume != "" {
			args = append(args, "-resume", s.resume)
		}
		cmd := exec.Command(exe, args...)
		lf, _ := os.Create(logp)
		cmd.Stdout = lf
		cmd.Stderr = lf
		cmd.Env = append(os.Environ(),
			"GORACE=halt_on_error=0 log_path="+filepath.Join(work, fmt.Sprintf("race.s%d.r%d", s.id, s.restarts)),
			"GOTRACEBACK=all")
		if err := cmd.Start(); err != nil {
			lf.Close()
			return
		}
		done := make(chan error, 1)
		go func() { done <- cmd.Wait() }()
		var werr error
		timedOut := false
		select {
		case werr = <-done:
		case <-time.After(tmo):
			timedOut = true
			cmd.Process.Signal(syscall.SIGQUIT)
			select {
			case werr = <-done:
			case <-time.After(10 * time.Second):
				cmd.Process.Kill()
				werr = <-done
			}
		}
		lf.Close()
		var r result
		if b, err := os.ReadFile(out); err == nil {
			json.Unmarshal(b, &r)
		}
		mergeInto(&s.res, &r)
		if r.Done {
			// all cases ran and results were flushed; a non-zero exit here is the race
			// detector's exit status (reports are read from the race logs)
			s.res.Done = true
			return
		}
		// abnormal end: attribute to journalled case
		stream, idx := readJournal(out + ".journal")
		if timedOut {
			s.timedOut = true
			return
		}
		code := -1
		if ee, ok := werr.(*exec.ExitError); ok {
			code = ee.ExitCode()
		}
		if code != 3 { // 3 = Watch() already recorded its verdict
			logTxt := tail(logp, 200)
			sigl := crashSignature(logTxt)
			var stageB []byte
			if b, err := os.ReadFile(out + ".stage"); err == nil && len(b) > 0 {
				if len(b) > 4096 {
					b = b[:4096]
				}
				stageB = b
			}
			if sigl == "unknown-exit" {
				// the child vanished without any Go fatal/panic/signal report (e.g. killed from
				// outside, OOM killer): nothing attributable to the code under test
				if s.res.Inconclusive == nil {
					s.res.Inconclusive = map[string]int64{}
				}
				s.res.Inconclusive["child-died-without-report"]++
				if stream == "" || s.restarts >= opt.MaxRestarts {
					return
				}
				s.restarts++
				s.resume = stream + "#" + strconv.Itoa(idx)
				continue
			}
			s.crashed = append(s.crashed, violation{
				Key:    "crash:" + stream + ":" + sigl,
				What:   "process-fatal error in child while running the journalled case",
				Stream: stream, Index: idx,
				Witness: map[string]any{"exit": code, "log_tail": logTxt, "staged_input_hex": hex.EncodeToString(stageB)},
			})
		}
		if stream == "" || s.restarts >= opt.MaxRestarts {
			return
		}
		s.restarts++
		s.resume = stream + "#" + strconv.Itoa(idx)
	}
}

func mergeInto(a, r *result) {
	a.Evaluations += r.Evaluations
	a.Nontrivial = append(a.Nontrivial, r.Nontrivial...)
	a.Samples = append(a.Samples, r.Samples...)
	if a.Counters == nil {
		a.Counters = map[string]int64{}
	}
	if a.Inconclusive == nil {
		a.Inconclusive = map[string]int64{}
	}
	for k, v := range r.Counters {
		a.Counters[k] += v
	}
	for k, v := range r.Inconclusive {
		a.Inconclusive[k] += v
	}
	a.Violations = append(a.Violations, r.Violations...)
}

func readJournal(p string) (string, int) {
	b, err := os.ReadFile(p)
	if err != nil {
		return "", 0
	}
	ln := strings.TrimSpace(strings.SplitN(string(b), "\n", 2)[0])
	i := strings.LastIndex(ln, " ")
	if i < 0 {
		return "", 0
	}
	n, _ := strconv.Atoi(ln[i+1:])
	return ln[:i], n
}

func tail(p string, n int) string {
	b, err := os.ReadFile(p)
	if err != nil {
		return ""
	}
	// keep the head of the first fatal block rather than the tail: find first marker
	s := string(b)
	for _, m := range []string{"fatal error:", "panic:", "SIGSEGV", "==ERROR", "unexpected signal"} {
		if i := strings.Index(s, m); i >= 0 {
			s = s[i:]
			break
		}
	}
	lines := strings.Split(s, "\n")
	if len(lines) > n {
		lines = lines[:n]
	}
	return strings.Join(lines, "\n")
}

func crashSignature(logTxt string) string {
	first := ""
	for _, ln := range strings.Split(logTxt, "\n") {
		t := strings.TrimSpace(ln)
		if strings.HasPrefix(t, "fatal error:") || strings.HasPrefix(t, "panic:") || strings.Contains(t, "SIGSEGV") || strings.Contains(t, "==ERROR") || strings.HasPrefix(t, "unexpected signal") {
			first = t
			break
		}
	}
	if first == "" {
		if strings.Contains(logTxt, "WARNING: DATA RACE") {
			return "race-only"
		}
		return "unknown-exit"
	}
	first = hexaddr.ReplaceAllString(first, "X")
	first = digits.ReplaceAllString(first, "N")
	if len(first) > 70 {
		first = first[:70]
	}
	return first + "@" + InnermostRepoFrame(logTxt)
}
