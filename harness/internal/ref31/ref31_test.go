package ref31

import (
	"bytes"
	"encoding/hex"
	"encoding/json"
	"os"
	"path/filepath"
	"strconv"
	"testing"
)

func repo() string {
	if r := os.Getenv("VERIF_REPO"); r != "" {
		return r
	}
	return "/repo"
}

func unhex(t *testing.T, s string) []byte {
	b, err := hex.DecodeString(s)
	if err != nil {
		t.Fatal(err)
	}
	return b
}

func unhexAll(t *testing.T, ss []string) [][]byte {
	out := make([][]byte, len(ss))
	for i, s := range ss {
		out[i] = unhex(t, s)
	}
	return out
}

// No lisk-engine code involved: the reference must reproduce the LIP-0031 fixture roots.
func TestAgainstFixtures(t *testing.T) {
	var tr struct {
		TestCases []struct {
			Input struct {
				IDs []string `json:"transactionIds"`
			} `json:"input"`
			Output struct {
				Root string `json:"transactionMerkleRoot"`
			} `json:"output"`
		} `json:"testCases"`
	}
	b, err := os.ReadFile(filepath.Join(repo(), "pkg/trie/rmt/fixtures/transaction_root_fixtures.json"))
	if err != nil {
		t.Fatal(err)
	}
	if err := json.Unmarshal(b, &tr); err != nil {
		t.Fatal(err)
	}
	if len(tr.TestCases) == 0 {
		t.Fatal("no cases")
	}
	for i, tc := range tr.TestCases {
		if got := Root(unhexAll(t, tc.Input.IDs)); !bytes.Equal(got, unhex(t, tc.Output.Root)) {
			t.Errorf("transaction_root case %d (n=%d): got %x want %s", i, len(tc.Input.IDs), got, tc.Output.Root)
		}
	}
	var up struct {
		TestCases []struct {
			Input struct {
				Values       []string `json:"values"`
				UpdateValues []string `json:"updateValues"`
				Proof        struct {
					Size string   `json:"size"`
					Idxs []string `json:"indexes"`
				} `json:"proof"`
			} `json:"input"`
			Output struct {
				Initial string `json:"initialMerkleRoot"`
				Final   string `json:"finalMerkleRoot"`
			} `json:"output"`
		} `json:"testCases"`
	}
	b, err = os.ReadFile(filepath.Join(repo(), "pkg/trie/rmt/fixtures/update_leaves_fixtures.json"))
	if err != nil {
		t.Fatal(err)
	}
	if err := json.Unmarshal(b, &up); err != nil {
		t.Fatal(err)
	}
	if len(up.TestCases) == 0 {
		t.Fatal("no cases")
	}
	for i, tc := range up.TestCases {
		vals := unhexAll(t, tc.Input.Values)
		if got := Root(vals); !bytes.Equal(got, unhex(t, tc.Output.Initial)) {
			t.Errorf("update_leaves case %d initial: got %x want %s", i, got, tc.Output.Initial)
		}
		// indexes are node indexes "1"+path bits; translate through the reference tree shape
		mod := append([][]byte{}, vals...)
		for j, is := range tc.Input.Proof.Idxs {
			idx, err := strconv.ParseUint(is, 16, 64)
			if err != nil {
				t.Fatal(err)
			}
			pos, ok := PosOfIndex(len(vals), idx)
			if !ok {
				t.Fatalf("update_leaves case %d: index %x is not a leaf of a tree of %d", i, idx, len(vals))
			}
			mod[pos] = unhex(t, tc.Input.UpdateValues[j])
		}
		if got := Root(mod); !bytes.Equal(got, unhex(t, tc.Output.Final)) {
			t.Errorf("update_leaves case %d final: got %x want %s", i, got, tc.Output.Final)
		}
		for p := range vals {
			if got := RootFromLeaf(vals, p, LeafHash(vals[p])); !bytes.Equal(got, unhex(t, tc.Output.Initial)) {
				t.Errorf("update_leaves case %d: RootFromLeaf(%d) mismatch", i, p)
			}
		}
	}
	t.Logf("%d + %d fixture cases reproduced", len(tr.TestCases), len(up.TestCases))
}

func TestIndexRoundTrip(t *testing.T) {
	for n := 1; n < 200; n++ {
		seen := map[uint64]bool{}
		for p := 0; p < n; p++ {
			idx := IndexOfPos(n, p)
			if seen[idx] {
				t.Fatalf("n=%d duplicate index", n)
			}
			seen[idx] = true
			q, ok := PosOfIndex(n, idx)
			if !ok || q != p {
				t.Fatalf("n=%d pos %d -> idx %b -> %d %v", n, p, idx, q, ok)
			}
		}
	}
}
