// Package ref31 is an independent reference for the LIP-0031 regular Merkle tree.
//
// Written from the LIP's recursive definition, not from pkg/trie/rmt:
//
//	root([])       = SHA256("")
//	root([d])      = SHA256(0x00 || d)
//	root(d[0..n))  = SHA256(0x01 || root(d[0..k)) || root(d[k..n)))   k = largest power of two < n
//
// The append path of a list of n leaves is the list of roots of the perfect subtrees in the
// left-to-right decomposition of n into decreasing powers of two, given lowest (rightmost,
// smallest) first.
package ref31

import "crypto/sha256"

// EmptyHash is the root of the empty list.
var EmptyHash = func() []byte { s := sha256.Sum256(nil); return s[:] }()

// LeafHash is H(0x00 || data).
func LeafHash(data []byte) []byte {
	h := sha256.New()
	h.Write([]byte{0})
	h.Write(data)
	return h.Sum(nil)
}

// BranchHash is H(0x01 || l || r).
func BranchHash(l, r []byte) []byte {
	h := sha256.New()
	h.Write([]byte{1})
	h.Write(l)
	h.Write(r)
	return h.Sum(nil)
}

// Split returns the largest power of two strictly less than n (n >= 2).
func Split(n int) int {
	k := 1
	for k*2 < n {
		k *= 2
	}
	return k
}

// Root is the LIP-0031 root of the list of leaf data.
func Root(data [][]byte) []byte {
	switch len(data) {
	case 0:
		return EmptyHash
	case 1:
		return LeafHash(data[0])
	}
	k := Split(len(data))
	return BranchHash(Root(data[:k]), Root(data[k:]))
}

// AppendPath returns the append path of the list (see the package comment).
func AppendPath(data [][]byte) [][]byte {
	var top [][]byte // largest first
	off := 0
	n := len(data)
	for p := 1 << 62; p > 0; p >>= 1 {
		if n&p != 0 {
			top = append(top, Root(data[off:off+p]))
			off += p
		}
	}
	out := make([][]byte, len(top))
	for i := range top {
		out[len(top)-1-i] = top[i]
	}
	return out
}

// LeafPath returns, for the leaf at position pos of a list of n leaves, the sibling ranges
// [lo,hi) met from the root down to the leaf, and for each whether the sibling is on the left.
// It describes the unique authentication path of the leaf in the LIP-0031 tree shape.
type Sib struct {
	Lo, Hi int
	Left   bool // sibling is the left child
}

func LeafPath(n, pos int) []Sib {
	var out []Sib
	lo, hi := 0, n
	for hi-lo > 1 {
		k := lo + Split(hi-lo)
		if pos < k {
			out = append(out, Sib{Lo: k, Hi: hi, Left: false})
			hi = k
		} else {
			out = append(out, Sib{Lo: lo, Hi: k, Left: true})
			lo = k
		}
	}
	return out
}

// RootFromLeaf recomputes the root from one leaf hash and the authentication path of pos,
// taking sibling roots from data. Used to cross-check single-leaf inclusion independently.
func RootFromLeaf(data [][]byte, pos int, leafHash []byte) []byte {
	path := LeafPath(len(data), pos)
	cur := leafHash
	for i := len(path) - 1; i >= 0; i-- {
		s := path[i]
		sr := Root(data[s.Lo:s.Hi])
		if s.Left {
			cur = BranchHash(sr, cur)
		} else {
			cur = BranchHash(cur, sr)
		}
	}
	return cur
}

// Height is the number of layers of the tree of n >= 1 leaves: ceil(log2 n) + 1.
func Height(n int) int {
	h := 1
	for (1 << uint(h-1)) < n {
		h++
	}
	return h
}

// IndexOfPos gives the LIP-0031 proof index of the leaf at position pos in a tree of n
// leaves: the bit string "1" followed by pos written with Height(n) bits.
func IndexOfPos(n, pos int) uint64 { return uint64(1)<<uint(Height(n)) + uint64(pos) }

// PosOfIndex is the inverse of IndexOfPos (ok=false if idx is not a leaf index of the tree).
func PosOfIndex(n int, idx uint64) (int, bool) {
	if n < 1 {
		return 0, false
	}
	base := uint64(1) << uint(Height(n))
	if idx < base || idx >= base+uint64(n) {
		return 0, false
	}
	return int(idx - base), true
}
