//go:build verif

package drv

import (
	"strings"
	"testing"

	"verifharness/internal/lip58"
)

func TestSmokeRoundRobin(t *testing.T) {
	for _, long := range []bool{false, true} {
		n := NewNode(3, long)
		m := lip58.NewGenesis(0, 3)
		if err := n.Genesis(0); err != nil {
			t.Fatal(err)
		}
		vs := []lip58.Validator{V(0, 1), V(1, 1), V(2, 1)}
		if err := n.SetParams(3, 3, vs); err != nil {
			t.Fatal(err)
		}
		_ = m.SetParameters(3, 3, vs)
		n.Commit()
		last := map[int]uint32{}
		for h := uint32(1); h <= 14; h++ {
			g := int(h-1) % 3
			rh := lip58.Header{Height: h, Generator: Addr(g), MaxHeightGenerated: last[g], MaxHeightPrevoted: m.Prevoted}
			bh := MakeHeader(rh, CommitEmpty, nil, 0)
			if err := n.Process(bh); err != nil {
				t.Fatal(err)
			}
			if err := m.Process(rh); err != nil {
				t.Fatal(err)
			}
			last[g] = h
			for _, mm := range Compare(n.Mod.API(), n.Store(), m, CompareOpts{Header: bh, RefHeader: rh}) {
				if strings.HasPrefix(mm.Key, "ImpliesMaximalPrevotes") {
					// reported by the C02 check as a finding on the unchanged tree; not this smoke test's subject
					continue
				}
				t.Errorf("long=%v h=%d mismatch %s: %s", long, h, mm.Key, mm.Detail)
			}
			n.Commit()
			for _, mm := range Compare(n.Mod.API(), n.Store(), m, CompareOpts{BelowWindow: true}) {
				t.Errorf("long=%v h=%d (committed) mismatch %s: %s", long, h, mm.Key, mm.Detail)
			}
			n.Discard()
		}
	}
}
