//go:build verif

package drv

import (
	"fmt"
	"math/rand"
	"strings"
	"testing"

	"verifharness/internal/lip58"
)

func TestSmokeRoundRobin(t *testing.T) {
	for _, long := range []bool{false, true} {
		n := NewNode(3, long)
		m := lip58.NewGenesis(0, 3)
		if err := n.Genesis(0); err != nil {
			t.Fatal(err)
		}
		vs := []lip58.Validator{V(0, 1), V(1, 1), V(2, 1)}
		if err := n.SetParams(3, 3, vs); err != nil {
			t.Fatal(err)
		}
		_ = m.SetParameters(3, 3, vs)
		n.Commit()
		last := map[int]uint32{}
		for h := uint32(1); h <= 14; h++ {
			g := int(h-1) % 3
			rh := lip58.Header{Height: h, Generator: Addr(g), MaxHeightGenerated: last[g], MaxHeightPrevoted: m.Prevoted}
			bh := MakeHeader(rh, CommitEmpty, nil, 0)
			if err := n.Process(bh); err != nil {
				t.Fatal(err)
			}
			if err := m.Process(rh); err != nil {
				t.Fatal(err)
			}
			last[g] = h
			for _, mm := range Compare(n.Mod.API(), n.Store(), m, CompareOpts{Header: bh, RefHeader: rh}) {
				if strings.HasPrefix(mm.Key, "ImpliesMaximalPrevotes") {
					// reported by the C02 check as a finding on the unchanged tree; not this smoke test's subject
					continue
				}
				t.Errorf("long=%v h=%d mismatch %s: %s", long, h, mm.Key, mm.Detail)
			}
			n.Commit()
			for _, mm := range Compare(n.Mod.API(), n.Store(), m, CompareOpts{BelowWindow: true}) {
				t.Errorf("long=%v h=%d (committed) mismatch %s: %s", long, h, mm.Key, mm.Detail)
			}
			n.Discard()
		}
	}
}

// TidyReader.IterateRange must return exactly what the repository's DB.IterateRange returns.
func TestTidyReaderMatchesRepository(t *testing.T) {
	d := NewDB()
	r := rand.New(rand.NewSource(7))
	for i := 0; i < 300; i++ {
		k := make([]byte, 1+r.Intn(4))
		r.Read(k)
		d.Set(k, []byte{byte(i)})
	}
	tr := TidyReader{d}
	for i := 0; i < 5000; i++ {
		a := make([]byte, 1+r.Intn(4))
		b := make([]byte, 1+r.Intn(4))
		r.Read(a)
		r.Read(b)
		limit := r.Intn(6) - 1
		if limit == 0 {
			limit = -1
		}
		rev := r.Intn(2) == 0
		x := d.IterateRange(a, b, limit, rev)
		y := tr.IterateRange(a, b, limit, rev)
		sx, sy := "", ""
		for _, kv := range x {
			sx += fmt.Sprintf("%x=%x,", kv.Key(), kv.Value())
		}
		for _, kv := range y {
			sy += fmt.Sprintf("%x=%x,", kv.Key(), kv.Value())
		}
		if sx != sy {
			t.Fatalf("range %x..%x limit %d reverse %v: repository %s tidy %s", a, b, limit, rev, sx, sy)
		}
	}
}
