// Package drv drives the real lisk-engine/pkg/consensus/liskbft code on a real
// diffdb.Database over an in-memory pebble DB, and compares what it reports with the
// lip58 reference model.
package drv

import (
	"bytes"
	"encoding/hex"
	"errors"
	"fmt"
	"sort"

	"github.com/LiskHQ/lisk-engine/pkg/blockchain"
	"github.com/LiskHQ/lisk-engine/pkg/consensus/liskbft"
	"github.com/LiskHQ/lisk-engine/pkg/crypto"
	"github.com/LiskHQ/lisk-engine/pkg/db"
	"github.com/LiskHQ/lisk-engine/pkg/db/diffdb"
	"github.com/LiskHQ/lisk-engine/pkg/statemachine"

	"verifharness/internal/lip58"
)

// Addr returns the deterministic 20-byte address of validator i.
func Addr(i int) string {
	h := crypto.Hash([]byte(fmt.Sprintf("verif-validator-%d", i)))
	return string(h[:20])
}

// BLS returns the deterministic 48-byte stand-in BLS key of validator i (the BFT module
// never verifies it; it only enters the validators hash).
func BLS(i int) string {
	a := crypto.Hash([]byte(fmt.Sprintf("verif-bls-a-%d", i)))
	b := crypto.Hash([]byte(fmt.Sprintf("verif-bls-b-%d", i)))
	return string(append(a, b[:16]...))
}

// V builds a reference validator entry for validator i.
func V(i int, w uint64) lip58.Validator {
	return lip58.Validator{Address: Addr(i), Weight: w, BLSKey: BLS(i)}
}

// CommitKind says how the aggregate commit of a header is filled.
type CommitKind int

const (
	CommitEmpty CommitKind = iota
	CommitBitsOnly
	CommitSigOnly
	CommitBoth
)

// MakeHeader builds a real block header carrying the BFT-relevant fields of h.
func MakeHeader(h lip58.Header, kind CommitKind, prevID []byte, salt uint32) *blockchain.BlockHeader {
	ac := &blockchain.AggregateCommit{Height: h.CommitHeight, AggregationBits: []byte{}, CertificateSignature: []byte{}}
	switch kind {
	case CommitBitsOnly:
		ac.AggregationBits = []byte{0x01}
	case CommitSigOnly:
		ac.CertificateSignature = bytes.Repeat([]byte{0x07}, 96)
	case CommitBoth:
		ac.AggregationBits = []byte{0x03}
		ac.CertificateSignature = bytes.Repeat([]byte{0x09}, 96)
	}
	if prevID == nil {
		prevID = make([]byte, 32)
	}
	bh := &blockchain.BlockHeader{
		Version:            2,
		Timestamp:          salt,
		Height:             h.Height,
		PreviousBlockID:    prevID,
		GeneratorAddress:   []byte(h.Generator),
		TransactionRoot:    make([]byte, 32),
		AssetRoot:          make([]byte, 32),
		EventRoot:          make([]byte, 32),
		StateRoot:          make([]byte, 32),
		MaxHeightPrevoted:  h.MaxHeightPrevoted,
		MaxHeightGenerated: h.MaxHeightGenerated,
		ValidatorsHash:     make([]byte, 32),
		AggregateCommit:    ac,
		Signature:          make([]byte, 64),
	}
	bh.Init()
	return bh
}

// Node is one chain view computed by the real code.
type Node struct {
	Mod       *liskbft.Module
	DB        *db.DB
	Prefix    []byte
	LongLived bool
	// Tidy: read through TidyReader (closes its pebble iterators) instead of *db.DB directly.
	Tidy bool
	cur  *diffdb.Database
}

// TidyReader is a diffdb.DatabaseReader over the same real pebble instance as a *db.DB.
// Get and Iterate are the repository's own; IterateRange is re-implemented with identical
// semantics (inclusive bounds, limit, reverse) but closes the pebble iterator.  Reason:
// pkg/db's iterateRange never closes the iterator it is given; an unclosed pebble iterator
// pins the memtable arena (C heap) it was opened on for the life of the process, so a harness
// that makes millions of range reads over many pebble instances grows by roughly the number
// of bytes it ever wrote.  Views that should exercise the repository's IterateRange itself
// leave Tidy false.
type TidyReader struct{ D *db.DB }

func (t TidyReader) Get(key []byte) ([]byte, bool) { return t.D.Get(key) }

func (t TidyReader) Iterate(prefix []byte, limit int, reverse bool) []db.KeyValue {
	return t.D.Iterate(prefix, limit, reverse)
}

func (t TidyReader) IterateRange(start, end []byte, limit int, reverse bool) []db.KeyValue {
	iter := t.D.VerifPebble().NewIter(nil)
	defer iter.Close()
	var out []db.KeyValue
	take := func() bool {
		out = append(out, db.NewKeyValue(append([]byte{}, iter.Key()...), append([]byte{}, iter.Value()...)))
		return limit != -1 && len(out) >= limit
	}
	if !reverse {
		for iter.SeekGE(start); iter.Valid(); iter.Next() {
			if bytes.Compare(iter.Key(), end) > 0 {
				break
			}
			if take() {
				break
			}
		}
		return out
	}
	// the smallest key greater than end is end||0x00: seek the last key <= end
	ok := iter.SeekLT(append(append([]byte{}, end...), 0))
	for ; ok && iter.Valid(); ok = iter.Prev() {
		if bytes.Compare(iter.Key(), start) < 0 {
			break
		}
		if take() {
			break
		}
	}
	return out
}

// NewDB opens a fresh in-memory pebble DB.
func NewDB() *db.DB {
	d, err := db.NewInMemoryDB()
	if err != nil {
		panic(err)
	}
	return d
}

// NewModule returns an initialised liskbft module.
func NewModule(batchSize int) *liskbft.Module {
	m := liskbft.NewModule()
	if err := m.Init(batchSize); err != nil {
		panic(err)
	}
	return m
}

// NewNode creates a chain view.  longLived: one diffdb for the whole chain, never
// committed; otherwise one diffdb per block, committed to the DB after each block as the
// engine does (so Range/pruning hit the real store).
func NewNode(batchSize int, longLived bool) *Node {
	return &Node{Mod: NewModule(batchSize), DB: NewDB(), Prefix: StatePrefix(), LongLived: longLived}
}

// StatePrefix is the key prefix the engine uses for the state store.
func StatePrefix() []byte { return blockchain.DBPrefixToBytes(blockchain.DBPrefixState) }

// NewNodeOn creates a chain view on an existing DB under prefix (state prefix + suffix), so
// that many views can share one pebble instance.
func NewNodeOn(d *db.DB, suffix []byte, mod *liskbft.Module, longLived bool) *Node {
	return &Node{Mod: mod, DB: d, Prefix: append(StatePrefix(), suffix...), LongLived: longLived}
}

// Fork copies the committed state of n to a new view under another prefix suffix.
func (n *Node) Fork(suffix []byte) *Node {
	c := &Node{Mod: n.Mod, DB: n.DB, Prefix: append(StatePrefix(), suffix...), LongLived: n.LongLived, Tidy: n.Tidy}
	b := n.DB.NewBatch()
	for _, kv := range n.DB.Iterate(n.Prefix, -1, false) {
		b.Set(append(append([]byte{}, c.Prefix...), kv.Key()[len(n.Prefix):]...), kv.Value())
	}
	n.DB.Write(b)
	return c
}

// Drop deletes the committed state of the view.
func (n *Node) Drop() {
	b := n.DB.NewBatch()
	for _, kv := range n.DB.Iterate(n.Prefix, -1, false) {
		b.Del(kv.Key())
	}
	n.DB.Write(b)
}

// RawDump returns the committed key/value pairs of the view (keys without the prefix).
func (n *Node) RawDump() [][2]string {
	var out [][2]string
	for _, kv := range n.DB.Iterate(n.Prefix, -1, false) {
		out = append(out, [2]string{hex.EncodeToString(kv.Key()[len(n.Prefix):]), hex.EncodeToString(kv.Value())})
	}
	return out
}

// FlushLongLived commits a long-lived view's diff into its DB (end of chain only).
func (n *Node) FlushLongLived() {
	if n.cur == nil {
		return
	}
	b := n.DB.NewBatch()
	n.cur.Commit(b)
	n.DB.Write(b)
	n.cur = nil
}

// Close releases the DB.
func (n *Node) Close() {
	defer func() { _ = recover() }()
	_ = n.DB.Close()
}

// Store is the working store of the block being processed.
func (n *Node) Store() *diffdb.Database {
	if n.cur == nil {
		if n.Tidy {
			n.cur = diffdb.New(TidyReader{n.DB}, n.Prefix)
		} else {
			n.cur = diffdb.New(n.DB, n.Prefix)
		}
	}
	return n.cur
}

// Commit ends the current block.
func (n *Node) Commit() {
	if n.LongLived || n.cur == nil {
		return
	}
	b := n.DB.NewBatch()
	n.cur.Commit(b)
	n.DB.Write(b)
	n.cur = nil
}

// Snapshot / Restore use diffdb's own snapshots on the working store (long-lived views).
func (n *Node) Snapshot() int { return n.Store().Snapshot() }

// Restore returns the working store to a snapshot.
func (n *Node) Restore(id int) error { return n.Store().RestoreSnapshot(id) }

// Discard drops the working store of a per-block view without committing (after reads).
func (n *Node) Discard() {
	if !n.LongLived {
		n.cur = nil
	}
}

// Genesis runs InitGenesisState for a genesis block at the given height.
func (n *Node) Genesis(height uint32) error {
	g := MakeHeader(lip58.Header{Height: height}, CommitEmpty, nil, 0)
	g.Version = 0
	g.Init()
	return n.Mod.InitGenesisState(g.Readonly(), n.Store())
}

// ToBFTValidators converts reference validators.
func ToBFTValidators(vs []lip58.Validator) liskbft.BFTValidators {
	out := make(liskbft.BFTValidators, len(vs))
	for i, v := range vs {
		out[i] = liskbft.NewValidator([]byte(v.Address), v.Weight, []byte(v.BLSKey))
	}
	return out
}

// SetParams calls API.SetBFTParameters.
func (n *Node) SetParams(precommit, cert uint64, vs []lip58.Validator) error {
	return n.Mod.API().SetBFTParameters(n.Store(), precommit, cert, ToBFTValidators(vs))
}

// SetGenerators calls API.SetGeneratorKeys.
func (n *Node) SetGenerators(addrs []string) error {
	gs := make(liskbft.Generators, len(addrs))
	for i, a := range addrs {
		gs[i] = liskbft.NewGenerator([]byte(a), []byte("generator-key-of-"+hex.EncodeToString([]byte(a)[:4])))
	}
	return n.Mod.API().SetGeneratorKeys(n.Store(), gs)
}

// Process calls Module.BeforeTransactionsExecute.
func (n *Node) Process(h *blockchain.BlockHeader) error {
	return n.Mod.BeforeTransactionsExecute(h.Readonly(), n.Store())
}

// ---------------------------------------------------------------------------------------
// Observation and comparison

// Mismatch is one disagreement between implementation and reference.
type Mismatch struct {
	Key    string // stable: what differs
	Detail string
}

func hx(s string) string {
	if len(s) > 4 {
		s = s[:4]
	}
	return hex.EncodeToString([]byte(s))
}

func paramsEqual(ip *liskbft.BFTParams, rp *lip58.Params) string {
	if ip.PrevoteThreshold() != rp.PrevoteThreshold {
		return fmt.Sprintf("prevoteThreshold impl=%d ref=%d", ip.PrevoteThreshold(), rp.PrevoteThreshold)
	}
	if ip.PrecommitThreshold() != rp.PrecommitThreshold {
		return fmt.Sprintf("precommitThreshold impl=%d ref=%d", ip.PrecommitThreshold(), rp.PrecommitThreshold)
	}
	if ip.CertificateThreshold() != rp.CertificateThreshold {
		return fmt.Sprintf("certificateThreshold impl=%d ref=%d", ip.CertificateThreshold(), rp.CertificateThreshold)
	}
	if len(ip.Validators()) != len(rp.Validators) {
		return fmt.Sprintf("validator count impl=%d ref=%d", len(ip.Validators()), len(rp.Validators))
	}
	for _, v := range ip.Validators() {
		w, ok := rp.WeightOf(string(v.Address()))
		if !ok || w != v.BFTWeight() {
			return fmt.Sprintf("validator %s weight impl=%d ref=%d(present=%v)", hx(string(v.Address())), v.BFTWeight(), w, ok)
		}
	}
	return ""
}

// CompareOpts selects what Compare looks at.
type CompareOpts struct {
	// Header: if non-nil, ImpliesMaximalPrevotes is compared for it (it must be the header
	// processed last on both sides).
	Header    *blockchain.BlockHeader
	RefHeader lip58.Header
	// BelowWindow: also compare parameter lookups for every height from 0 (depends on the
	// exact pruning rule R10).  Only use on a store without uncommitted deletions.
	BelowWindow bool
	// OnlyImplies: compare nothing but ImpliesMaximalPrevotes for Header.
	OnlyImplies bool
	// SkipLookups: compare heights, window weights, validator info and the stored parameter
	// heights, but do not probe GetBFTParameters / NextHeightBFTParameters / GetGeneratorKeys
	// height by height (used where the chain never changes parameters after genesis).
	SkipLookups bool
}

// Compare reads everything observable from the implementation's store and compares it with
// the reference.  It returns the mismatches (empty = agreement).
func Compare(api *liskbft.API, store *diffdb.Database, m *lip58.Model, o CompareOpts) []Mismatch {
	var out []Mismatch
	add := func(k, d string) { out = append(out, Mismatch{k, d}) }
	if o.OnlyImplies {
		compareImplies(api, store, m, o, add)
		return out
	}

	pv, pc, ce, err := api.GetBFTHeights(store)
	if err != nil {
		add("GetBFTHeights:error", err.Error())
		return out
	}
	if pv != m.Prevoted {
		add("maxHeightPrevoted", fmt.Sprintf("impl=%d ref=%d", pv, m.Prevoted))
	}
	if pc != m.Precommitted {
		add("maxHeightPrecommitted", fmt.Sprintf("impl=%d ref=%d", pc, m.Precommitted))
	}
	if ce != m.Certified {
		add("maxHeightCertified", fmt.Sprintf("impl=%d ref=%d", ce, m.Certified))
	}
	dump, err := liskbft.VerifDumpVotes(store)
	if err != nil {
		add("VerifDumpVotes:error", err.Error())
		return out
	}
	win := m.Window()
	if len(dump.Blocks) != len(win) {
		add("window-length", fmt.Sprintf("impl=%d ref=%d", len(dump.Blocks), len(win)))
	} else {
		for i, b := range dump.Blocks {
			r := win[i]
			if b.Height != r.Height || string(b.Generator) != r.Generator || b.MaxHeightGenerated != r.MaxHeightGenerated || b.MaxHeightPrevoted != r.MaxHeightPrevoted {
				add("window-entry", fmt.Sprintf("index %d impl=(h%d g%s mhg%d mhp%d) ref=(h%d g%s mhg%d mhp%d)", i, b.Height, hx(string(b.Generator)), b.MaxHeightGenerated, b.MaxHeightPrevoted, r.Height, hx(r.Generator), r.MaxHeightGenerated, r.MaxHeightPrevoted))
				continue
			}
			if b.PrevoteWeight != r.Prevotes {
				add("prevoteWeight", fmt.Sprintf("height %d impl=%d ref=%d", b.Height, b.PrevoteWeight, r.Prevotes))
			}
			if b.PrecommitWeight != r.Precommits {
				add("precommitWeight", fmt.Sprintf("height %d impl=%d ref=%d", b.Height, b.PrecommitWeight, r.Precommits))
			}
		}
	}
	if len(dump.Validators) != len(m.Active) {
		add("active-validator-count", fmt.Sprintf("impl=%d ref=%d", len(dump.Validators), len(m.Active)))
	}
	for _, v := range dump.Validators {
		r, ok := m.Active[string(v.Address)]
		if !ok {
			add("active-validator-unexpected", hx(string(v.Address)))
			continue
		}
		if v.MinActiveHeight != r.MinActiveHeight {
			add("minActiveHeight", fmt.Sprintf("validator %s impl=%d ref=%d", hx(string(v.Address)), v.MinActiveHeight, r.MinActiveHeight))
		}
		if v.LargestHeightPrecommit != r.LargestHeightPrecommit {
			add("largestHeightPrecommit", fmt.Sprintf("validator %s impl=%d ref=%d", hx(string(v.Address)), v.LargestHeightPrecommit, r.LargestHeightPrecommit))
		}
	}

	// parameter lookups
	tip, has := m.Tip()
	lo, _ := m.Oldest()
	if !has {
		tip, lo = m.Prevoted, m.Prevoted
	}
	if o.SkipLookups {
		compareStoredHeights(store, m, add)
		compareImplies(api, store, m, o, add)
		return out
	}
	// Heights probed: lookups are piecewise constant between stored keys, so it is enough to
	// probe around every key stored on either side (parameters and generator keys), around
	// both ends of the window, and height 0; windows of up to 16 blocks are probed fully.
	probe := map[uint32]struct{}{}
	addH := func(h uint32) {
		if o.BelowWindow || h >= lo {
			probe[h] = struct{}{}
		}
	}
	around := func(h uint32) {
		if h > 0 {
			addH(h - 1)
		}
		addH(h)
		addH(h + 1)
	}
	around(lo)
	around(tip)
	addH(tip + 2)
	if o.BelowWindow {
		addH(0)
	}
	if tip-lo < 16 {
		for h := lo; h <= tip; h++ {
			addH(h)
		}
	}
	for _, k := range m.ParamHeights() {
		around(k)
	}
	for _, k := range m.GeneratorKeyHeights() {
		around(k)
	}
	if ips, err := liskbft.VerifDumpParams(store); err == nil {
		for _, p := range ips {
			around(p.Height)
		}
	}
	for _, g := range liskbft.VerifDumpGeneratorKeyHeights(store) {
		around(g)
	}
	heights := make([]uint32, 0, len(probe))
	for h := range probe {
		heights = append(heights, h)
	}
	sort.Slice(heights, func(i, j int) bool { return heights[i] < heights[j] })
	for _, h := range heights {
		ip, ierr := api.GetBFTParameters(store, h)
		rp, rerr := m.ParamsAt(h)
		scope := "in-window"
		if h < lo {
			scope = "below-window"
		}
		switch {
		case ierr != nil && rerr != nil:
			if !errors.Is(ierr, liskbft.ErrBFTParamsNotFound) {
				add("GetBFTParameters:"+scope+":unexpected-error", fmt.Sprintf("h=%d %v", h, ierr))
			}
		case ierr != nil:
			add("GetBFTParameters:"+scope+":impl-missing", fmt.Sprintf("h=%d %v", h, ierr))
		case rerr != nil:
			add("GetBFTParameters:"+scope+":impl-has-ref-missing", fmt.Sprintf("h=%d", h))
		default:
			if d := paramsEqual(ip, rp); d != "" {
				add("GetBFTParameters:"+scope+":differs", fmt.Sprintf("h=%d %s", h, d))
			} else if !bytes.Equal(ip.ValidatorsHash(), rp.ValidatorsHash) {
				add("GetBFTParameters:"+scope+":validatorsHash", fmt.Sprintf("h=%d impl=%x ref=%x", h, ip.ValidatorsHash(), rp.ValidatorsHash))
			}
		}
		in, ierr2 := api.NextHeightBFTParameters(store, h)
		rn, rok := m.NextParamsHeight(h)
		switch {
		case ierr2 != nil && !rok:
			if !errors.Is(ierr2, statemachine.ErrNotFound) {
				add("NextHeightBFTParameters:"+scope+":unexpected-error", fmt.Sprintf("h=%d %v", h, ierr2))
			}
		case ierr2 != nil:
			add("NextHeightBFTParameters:"+scope+":impl-none", fmt.Sprintf("h=%d ref=%d", h, rn))
		case !rok:
			add("NextHeightBFTParameters:"+scope+":ref-none", fmt.Sprintf("h=%d impl=%d", h, in))
		case in != rn:
			add("NextHeightBFTParameters:"+scope+":differs", fmt.Sprintf("h=%d impl=%d ref=%d", h, in, rn))
		}
		ig, ierr3 := api.GetGeneratorKeys(store, h)
		rg, rgok := m.GeneratorsAt(h)
		switch {
		case ierr3 != nil && !rgok:
		case ierr3 != nil:
			add("GetGeneratorKeys:"+scope+":impl-missing", fmt.Sprintf("h=%d %v", h, ierr3))
		case !rgok:
			add("GetGeneratorKeys:"+scope+":impl-has-ref-missing", fmt.Sprintf("h=%d", h))
		default:
			same := len(ig) == len(rg)
			for i := 0; same && i < len(ig); i++ {
				same = string(ig[i].Address()) == rg[i]
			}
			if !same {
				add("GetGeneratorKeys:"+scope+":differs", fmt.Sprintf("h=%d", h))
			}
		}
	}
	if o.BelowWindow {
		compareStoredHeights(store, m, add)
	}
	compareImplies(api, store, m, o, add)
	return out
}

func compareImplies(api *liskbft.API, store *diffdb.Database, m *lip58.Model, o CompareOpts, add func(k, d string)) {
	if o.Header != nil {
		iv, ierr := api.ImpliesMaximalPrevotes(store, o.Header.Readonly())
		rv, rerr := m.ImpliesMaximalPrevotes(o.RefHeader)
		switch {
		case ierr != nil && rerr != nil:
		case ierr != nil || rerr != nil:
			add("ImpliesMaximalPrevotes:error-mismatch", fmt.Sprintf("impl err=%v ref err=%v", ierr, rerr))
		case iv != rv:
			add(fmt.Sprintf("ImpliesMaximalPrevotes:impl=%v:ref=%v", iv, rv), fmt.Sprintf("height %d mhg %d", o.RefHeader.Height, o.RefHeader.MaxHeightGenerated))
		}
	}
}

func compareStoredHeights(store *diffdb.Database, m *lip58.Model, add func(k, d string)) {
	ips, err := liskbft.VerifDumpParams(store)
	if err != nil {
		add("VerifDumpParams:error", err.Error())
	} else {
		var ih []uint32
		for _, p := range ips {
			ih = append(ih, p.Height)
		}
		rh := m.ParamHeights()
		if fmt.Sprint(ih) != fmt.Sprint(rh) {
			add("stored-parameter-heights", fmt.Sprintf("impl=%v ref=%v", ih, rh))
		}
	}
	gh := liskbft.VerifDumpGeneratorKeyHeights(store)
	sort.Slice(gh, func(i, j int) bool { return gh[i] < gh[j] })
	if rh := m.GeneratorKeyHeights(); fmt.Sprint(gh) != fmt.Sprint(rh) {
		add("stored-generator-key-heights", fmt.Sprintf("impl=%v ref=%v", gh, rh))
	}
}
