// Package crashfs wraps pebble's strict in-memory file system with an operation counter.
// At a chosen count the wrapper calls SetIgnoreSyncs(true): from then on nothing becomes
// durable, which is pebble's own power-loss model. Crash() then discards everything that
// was not synced.
package crashfs

import (
	"fmt"
	"os"
	"sync"

	"github.com/cockroachdb/pebble/vfs"
)

type FS struct {
	*vfs.MemFS
	mu      sync.Mutex
	count   int
	crashAt int // 0 = never
	crashed bool
	trace   []string
	tracing bool
}

func New() *FS { return &FS{MemFS: vfs.NewStrictMem()} }

// Count returns the number of mutating operations seen so far.
func (f *FS) Count() int { f.mu.Lock(); defer f.mu.Unlock(); return f.count }

// CrashAfter arms the crash: the j-th mutating operation from now on (1-based) and all
// later ones are not durable.
func (f *FS) CrashAfter(j int) {
	f.mu.Lock()
	f.crashAt = f.count + j
	f.mu.Unlock()
}

// StartTrace records the names of mutating operations from now on.
func (f *FS) StartTrace() { f.mu.Lock(); f.trace = nil; f.tracing = true; f.mu.Unlock() }
func (f *FS) StopTrace() []string {
	f.mu.Lock()
	defer f.mu.Unlock()
	f.tracing = false
	return append([]string{}, f.trace...)
}

func (f *FS) Crashed() bool { f.mu.Lock(); defer f.mu.Unlock(); return f.crashed }

func (f *FS) op(name string) {
	f.mu.Lock()
	f.count++
	if f.tracing {
		f.trace = append(f.trace, name)
	}
	fire := f.crashAt != 0 && f.count >= f.crashAt && !f.crashed
	if fire {
		f.crashed = true
	}
	f.mu.Unlock()
	if fire {
		// the operation that reaches the crash point is itself not durable
		f.MemFS.SetIgnoreSyncs(true)
	}
}

// Recover discards unsynced state and re-enables syncing (call after closing every handle).
func (f *FS) Recover() {
	f.MemFS.ResetToSyncedState()
	f.MemFS.SetIgnoreSyncs(false)
	f.mu.Lock()
	f.crashAt = 0
	f.crashed = false
	f.mu.Unlock()
}

type file struct {
	vfs.File
	fs   *FS
	name string
}

func (w *file) Write(p []byte) (int, error) {
	w.fs.op("write:" + w.name)
	return w.File.Write(p)
}
func (w *file) Sync() error {
	w.fs.op("sync:" + w.name)
	return w.File.Sync()
}

func (f *FS) wrap(name string, fl vfs.File, err error) (vfs.File, error) {
	if err != nil {
		return fl, err
	}
	return &file{File: fl, fs: f, name: f.MemFS.PathBase(name)}, nil
}

func (f *FS) Create(name string) (vfs.File, error) {
	f.op("create:" + f.MemFS.PathBase(name))
	fl, err := f.MemFS.Create(name)
	return f.wrap(name, fl, err)
}
func (f *FS) Link(oldname, newname string) error {
	f.op("link")
	return f.MemFS.Link(oldname, newname)
}
func (f *FS) Open(name string, opts ...vfs.OpenOption) (vfs.File, error) {
	fl, err := f.MemFS.Open(name, opts...)
	return f.wrap(name, fl, err)
}
func (f *FS) OpenDir(name string) (vfs.File, error) {
	fl, err := f.MemFS.OpenDir(name)
	return f.wrap(name, fl, err)
}
func (f *FS) Remove(name string) error {
	f.op("remove:" + f.MemFS.PathBase(name))
	return f.MemFS.Remove(name)
}
func (f *FS) RemoveAll(name string) error {
	f.op("removeall")
	return f.MemFS.RemoveAll(name)
}
func (f *FS) Rename(oldname, newname string) error {
	f.op("rename:" + f.MemFS.PathBase(newname))
	return f.MemFS.Rename(oldname, newname)
}
func (f *FS) ReuseForWrite(oldname, newname string) (vfs.File, error) {
	f.op("reuse:" + f.MemFS.PathBase(newname))
	fl, err := f.MemFS.ReuseForWrite(oldname, newname)
	return f.wrap(newname, fl, err)
}
func (f *FS) MkdirAll(dir string, perm os.FileMode) error {
	f.op("mkdir")
	return f.MemFS.MkdirAll(dir, perm)
}

func (f *FS) String() string { return fmt.Sprintf("crashfs(count=%d)", f.Count()) }
