// Package kvmodel is the reference model of an ordered byte-key/byte-value store with a
// staged overlay, snapshots and prefix views.  It is written from the *contract* of
// pkg/db and pkg/db/diffdb (what callers may rely on), not from their code:
//
//   - Map      a sorted map.  Order is bytewise lexicographic (bytes.Compare), so a key
//     that is a proper prefix of another sorts before it.
//   - Staged   a Map (the "database") plus staged writes/deletes, a set of snapshots of
//     the staged state, and Commit, which applies the staged state to the base
//     and returns the reference diff.  Staged state is ONE overlay shared by
//     all prefix views, exactly like a diffdb.Database and its WithPrefix views.
//   - View     Staged seen through a key prefix: every key is prefix||key.
//
// Scan semantics (both Map and Staged):
//
//	Range(start,end,limit,reverse)  all keys k with start <= k <= end (inclusive on
//	    both ends, lexicographic, whatever the key lengths), ascending, or descending
//	    when reverse; then the first `limit` of them if limit >= 0 (limit < 0: all).
//	Prefix(p,limit,reverse)         all keys having p as a prefix, same ordering/limit.
//
// Nothing here is safe for concurrent use.  Returned slices are fresh copies.
package kvmodel

import (
	"bytes"
	"sort"
)

// KV is one key/value pair.
type KV struct {
	Key   []byte
	Value []byte
}

func cp(b []byte) []byte {
	out := make([]byte, len(b))
	copy(out, b)
	return out
}

// Map is a sorted map from byte keys to byte values (nil and empty values are the same
// value: empty).
type Map struct {
	m map[string][]byte
}

// NewMap returns an empty map.
func NewMap() *Map { return &Map{m: map[string][]byte{}} }

// Set stores a copy of value under key.
func (m *Map) Set(key, value []byte) { m.m[string(key)] = cp(value) }

// Del removes key (no-op if absent).
func (m *Map) Del(key []byte) { delete(m.m, string(key)) }

// Get returns a copy of the value and whether the key exists.
func (m *Map) Get(key []byte) ([]byte, bool) {
	v, ok := m.m[string(key)]
	if !ok {
		return nil, false
	}
	return cp(v), true
}

// Has reports whether key exists.
func (m *Map) Has(key []byte) bool { _, ok := m.m[string(key)]; return ok }

// Len is the number of keys.
func (m *Map) Len() int { return len(m.m) }

// Clone returns a deep copy.
func (m *Map) Clone() *Map {
	c := &Map{m: make(map[string][]byte, len(m.m))}
	for k, v := range m.m {
		c.m[k] = cp(v)
	}
	return c
}

// All returns every pair in ascending key order.
func (m *Map) All() []KV { return m.scan(func(string) bool { return true }, -1, false) }

// Range returns the pairs with start <= key <= end (see package comment).
func (m *Map) Range(start, end []byte, limit int, reverse bool) []KV {
	s, e := string(start), string(end)
	return m.scan(func(k string) bool { return k >= s && k <= e }, limit, reverse)
}

// Prefix returns the pairs whose key starts with prefix (see package comment).
func (m *Map) Prefix(prefix []byte, limit int, reverse bool) []KV {
	p := string(prefix)
	return m.scan(func(k string) bool { return len(k) >= len(p) && k[:len(p)] == p }, limit, reverse)
}

func (m *Map) scan(in func(string) bool, limit int, reverse bool) []KV {
	keys := make([]string, 0, len(m.m))
	for k := range m.m {
		if in(k) {
			keys = append(keys, k)
		}
	}
	sort.Strings(keys) // Go string order == bytes.Compare order
	if reverse {
		for i, j := 0, len(keys)-1; i < j; i, j = i+1, j-1 {
			keys[i], keys[j] = keys[j], keys[i]
		}
	}
	if limit >= 0 && len(keys) > limit {
		keys = keys[:limit]
	}
	out := make([]KV, len(keys))
	for i, k := range keys {
		out[i] = KV{Key: []byte(k), Value: cp(m.m[k])}
	}
	return out
}

// Equal reports whether both maps hold exactly the same pairs.
func (m *Map) Equal(o *Map) bool { return len(m.Diff(o, 1)) == 0 }

// Diff lists up to max differences ("only in a", "only in b", "value differs") between
// m (a) and o (b), in key order; max <= 0 means all.
func (m *Map) Diff(o *Map, max int) []Difference {
	var out []Difference
	seen := map[string]bool{}
	var keys []string
	for k := range m.m {
		keys = append(keys, k)
		seen[k] = true
	}
	for k := range o.m {
		if !seen[k] {
			keys = append(keys, k)
		}
	}
	sort.Strings(keys)
	for _, k := range keys {
		a, ina := m.m[k]
		b, inb := o.m[k]
		switch {
		case ina && !inb:
			out = append(out, Difference{Key: []byte(k), Kind: "only-in-a", A: cp(a)})
		case !ina && inb:
			out = append(out, Difference{Key: []byte(k), Kind: "only-in-b", B: cp(b)})
		case !bytes.Equal(a, b):
			out = append(out, Difference{Key: []byte(k), Kind: "value-differs", A: cp(a), B: cp(b)})
		default:
			continue
		}
		if max > 0 && len(out) >= max {
			break
		}
	}
	return out
}

// Difference is one entry of Map.Diff.
type Difference struct {
	Key  []byte
	Kind string // only-in-a | only-in-b | value-differs
	A, B []byte
}

// ---------------------------------------------------------------------------------------

// Diff is the reference diff of a Commit: what has to be undone to get the base back.
type Diff struct {
	Added   [][]byte // keys absent from the base and present after the commit
	Updated []KV     // keys present before and after; Value is the ORIGINAL value
	Deleted []KV     // keys present before and absent after; Value is the ORIGINAL value
}

// Staged is a base Map with one overlay of staged writes and deletes.
type Staged struct {
	base  *Map
	cur   *Map // base with the staged writes/deletes applied (materialised)
	snaps map[int]*Map
	next  int
}

// NewStaged stages on top of a copy of base.
func NewStaged(base *Map) *Staged {
	return &Staged{base: base.Clone(), cur: base.Clone(), snaps: map[int]*Map{}}
}

// Base returns a copy of the database contents without the staged changes.
func (s *Staged) Base() *Map { return s.base.Clone() }

// State returns a copy of the database contents with the staged changes applied.
func (s *Staged) State() *Map { return s.cur.Clone() }

// Set stages a write.
func (s *Staged) Set(key, value []byte) { s.cur.Set(key, value) }

// Del stages a delete.
func (s *Staged) Del(key []byte) { s.cur.Del(key) }

// Get reads through the overlay.
func (s *Staged) Get(key []byte) ([]byte, bool) { return s.cur.Get(key) }

// Has reads through the overlay.
func (s *Staged) Has(key []byte) bool { return s.cur.Has(key) }

// Range scans through the overlay (Map.Range semantics).
func (s *Staged) Range(start, end []byte, limit int, reverse bool) []KV {
	return s.cur.Range(start, end, limit, reverse)
}

// Prefix scans through the overlay (Map.Prefix semantics).
func (s *Staged) Prefix(prefix []byte, limit int, reverse bool) []KV {
	return s.cur.Prefix(prefix, limit, reverse)
}

// Snapshot records the staged state and returns a fresh id (0,1,2,... per Staged).
func (s *Staged) Snapshot() int {
	id := s.next
	s.next++
	s.snaps[id] = s.cur.Clone()
	return id
}

// HasSnapshot reports whether id is live (taken, not deleted).
func (s *Staged) HasSnapshot(id int) bool { _, ok := s.snaps[id]; return ok }

// Restore makes the staged state exactly what it was when snapshot id was taken.  It
// returns false (and changes nothing) if id is not live.  The snapshot stays live; callers
// modelling a store that consumes the snapshot call DeleteSnapshot themselves.
func (s *Staged) Restore(id int) bool {
	sn, ok := s.snaps[id]
	if !ok {
		return false
	}
	s.cur = sn.Clone()
	return true
}

// DeleteSnapshot forgets id.
func (s *Staged) DeleteSnapshot(id int) { delete(s.snaps, id) }

// Commit applies the staged state to the base and returns the reference diff (sorted by
// key).  An implementation's diff may legitimately differ in form (e.g. list a key that
// was rewritten with an equal value as updated, as here, or not at all); what matters is
// that Revert(diff) gives the old base back.
func (s *Staged) Commit() Diff {
	var d Diff
	for _, df := range s.base.Diff(s.cur, 0) {
		switch df.Kind {
		case "only-in-a":
			d.Deleted = append(d.Deleted, KV{Key: df.Key, Value: df.A})
		case "only-in-b":
			d.Added = append(d.Added, df.Key)
		default:
			d.Updated = append(d.Updated, KV{Key: df.Key, Value: df.A})
		}
	}
	s.base = s.cur.Clone()
	return d
}

// Revert undoes a diff on m (delete added keys, put back original values).
func (m *Map) Revert(d Diff) {
	for _, k := range d.Added {
		m.Del(k)
	}
	for _, kv := range d.Deleted {
		m.Set(kv.Key, kv.Value)
	}
	for _, kv := range d.Updated {
		m.Set(kv.Key, kv.Value)
	}
}

// ---------------------------------------------------------------------------------------

// View is a Staged seen through a key prefix.  Keys given to and returned by a View do
// not contain the prefix.  Views of one Staged share its overlay and snapshots.
type View struct {
	s      *Staged
	prefix []byte
}

// View returns the view of s under prefix (may be empty).
func (s *Staged) View(prefix []byte) *View { return &View{s: s, prefix: cp(prefix)} }

// WithPrefix returns the nested view prefix(v)||prefix.
func (v *View) WithPrefix(prefix []byte) *View { return v.s.View(v.full(prefix)) }

// FullPrefix returns the complete prefix of the view.
func (v *View) FullPrefix() []byte { return cp(v.prefix) }

// Staged returns the shared staged store.
func (v *View) Staged() *Staged { return v.s }

func (v *View) full(key []byte) []byte {
	out := make([]byte, 0, len(v.prefix)+len(key))
	out = append(out, v.prefix...)
	return append(out, key...)
}

func (v *View) strip(kvs []KV) []KV {
	for i := range kvs {
		kvs[i].Key = kvs[i].Key[len(v.prefix):]
	}
	return kvs
}

func (v *View) Set(key, value []byte)         { v.s.Set(v.full(key), value) }
func (v *View) Del(key []byte)                { v.s.Del(v.full(key)) }
func (v *View) Get(key []byte) ([]byte, bool) { return v.s.Get(v.full(key)) }
func (v *View) Has(key []byte) bool           { return v.s.Has(v.full(key)) }

// Range: keys k of the view with start <= k <= end.  (prefix||start <= prefix||k <=
// prefix||end is the same condition, and every full key inside those bounds carries the
// prefix, so this equals a Range over full keys.)
func (v *View) Range(start, end []byte, limit int, reverse bool) []KV {
	return v.strip(v.s.Range(v.full(start), v.full(end), limit, reverse))
}

// Prefix: keys of the view starting with prefix.
func (v *View) Prefix(prefix []byte, limit int, reverse bool) []KV {
	return v.strip(v.s.Prefix(v.full(prefix), limit, reverse))
}
