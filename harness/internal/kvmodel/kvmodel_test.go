package kvmodel

import (
	"bytes"
	"testing"
)

// The vectors below are the ones of the repository's own unit tests
// (pkg/db/db_test.go TestDB, pkg/db/diffdb/db_test.go TestStateStoreRange/Snapshot/Commit):
// the model must give the answers those tests assert before it is trusted.

func keys(kvs []KV) [][]byte {
	var out [][]byte
	for _, kv := range kvs {
		out = append(out, kv.Key)
	}
	return out
}

func eq(t *testing.T, what string, got [][]byte, want ...[]byte) {
	t.Helper()
	if len(got) != len(want) {
		t.Fatalf("%s: got %x want %x", what, got, want)
	}
	for i := range got {
		if !bytes.Equal(got[i], want[i]) {
			t.Fatalf("%s: got %x want %x", what, got, want)
		}
	}
}

func TestRepoDBVectors(t *testing.T) {
	m := NewMap()
	m.Set([]byte{0, 0}, []byte("v00"))
	m.Set([]byte{0, 1}, []byte("v01"))
	m.Set([]byte{1, 0}, []byte("v10"))
	m.Set([]byte{1, 1}, []byte("v11"))
	eq(t, "Iterate 0 1 f", keys(m.Prefix([]byte{0}, 1, false)), []byte{0, 0})
	eq(t, "Iterate 0 1 r", keys(m.Prefix([]byte{0}, 1, true)), []byte{0, 1})
	eq(t, "Iterate 0 -1 r", keys(m.Prefix([]byte{0}, -1, true)), []byte{0, 1}, []byte{0, 0})
	eq(t, "Range 01..11 f", keys(m.Range([]byte{0, 1}, []byte{1, 1}, -1, false)), []byte{0, 1}, []byte{1, 0}, []byte{1, 1})
	eq(t, "Range 01..11 2 r", keys(m.Range([]byte{0, 1}, []byte{1, 1}, 2, true)), []byte{1, 1}, []byte{1, 0})
	if v, ok := m.Get([]byte{0, 0}); !ok || string(v) != "v00" {
		t.Fatal("get")
	}
	if m.Has([]byte{9, 9, 9, 9, 9}) {
		t.Fatal("has")
	}
}

func TestRepoDiffDBVectors(t *testing.T) {
	state := []byte{7}
	pre := []byte{7, 0, 0, 0, 1, 0, 0}
	base := NewMap()
	for _, k := range [][]byte{{0, 0}, {0, 1}, {1, 0}, {1, 1}} {
		base.Set(append(append([]byte{}, pre...), k...), []byte("val"))
	}
	s := NewStaged(base)
	child := s.View(state).WithPrefix(pre[1:])
	eq(t, "Range", keys(child.Range([]byte{0, 0}, []byte{0, 99}, 2, false)), []byte{0, 0}, []byte{0, 1})
	eq(t, "Range r", keys(child.Range([]byte{0, 0}, []byte{0, 99}, 1, true)), []byte{0, 1})
	eq(t, "Iterate", keys(child.Prefix([]byte{0}, -1, false)), []byte{0, 0}, []byte{0, 1})
	eq(t, "Iterate r", keys(child.Prefix([]byte{0}, 1, true)), []byte{0, 1})
	eq(t, "Iterate none", keys(child.Prefix([]byte{3}, 2, false)))

	// TestStateStoreSnapshot
	child.Set([]byte("address"), []byte("random value"))
	id := child.Staged().Snapshot()
	child.Set([]byte("address"), []byte("more random value"))
	if v, _ := child.Get([]byte("address")); string(v) != "more random value" {
		t.Fatal("set after snapshot")
	}
	if !s.Restore(id) {
		t.Fatal("restore")
	}
	if v, _ := child.Get([]byte("address")); string(v) != "random value" {
		t.Fatal("restore value")
	}

	// TestStateStoreCommit: one update, one delete, one add
	child.Set([]byte{0, 0}, []byte("new value"))
	child.Del([]byte{0, 1})
	child.Del([]byte("address"))
	child.Set([]byte("new address"), []byte("new somedata"))
	before := s.Base()
	d := s.Commit()
	if len(d.Added) != 1 || len(d.Updated) != 1 || len(d.Deleted) != 1 {
		t.Fatalf("diff %+v", d)
	}
	if string(d.Updated[0].Value) != "val" || string(d.Deleted[0].Value) != "val" {
		t.Fatal("diff must carry original values")
	}
	after := s.Base()
	if !after.Equal(s.State()) {
		t.Fatal("commit must write the staged state")
	}
	after.Revert(d)
	if !after.Equal(before) {
		t.Fatalf("revert: %+v", after.Diff(before, 0))
	}
}

func TestOrderingAndBounds(t *testing.T) {
	m := NewMap()
	for _, k := range []string{"", "a", "a\x00", "ab", "a\xff", "b", "\xff", "\xff\xff"} {
		m.Set([]byte(k), nil)
	}
	eq(t, "all", keys(m.All()), []byte(""), []byte("a"), []byte("a\x00"), []byte("ab"), []byte("a\xff"), []byte("b"), []byte("\xff"), []byte("\xff\xff"))
	// inclusive on both ends; a key extending `end` is greater than `end`
	eq(t, "range a..a", keys(m.Range([]byte("a"), []byte("a"), -1, false)), []byte("a"))
	eq(t, "range a..a r", keys(m.Range([]byte("a"), []byte("a"), -1, true)), []byte("a"))
	eq(t, "range ..ff r", keys(m.Range(nil, []byte("\xff"), 2, true)), []byte("\xff"), []byte("b"))
	eq(t, "inverted", keys(m.Range([]byte("b"), []byte("a"), -1, false)))
	eq(t, "limit0", keys(m.Range(nil, []byte("\xff\xff"), 0, false)))
	eq(t, "prefix ff", keys(m.Prefix([]byte("\xff"), -1, true)), []byte("\xff\xff"), []byte("\xff"))
	eq(t, "prefix empty", keys(m.Prefix(nil, 3, false)), []byte(""), []byte("a"), []byte("a\x00"))
}
