// Package ref39 is an independent reference for the LIP-0039 sparse Merkle tree root.
//
// It is written from the LIP's definition (recursion over the bits of the keys of a sorted
// map), not from pkg/trie/smt:
//
//	empty subtree          -> SHA256("")
//	subtree with one entry -> SHA256(0x00 || key || value)          (leaf, at whatever depth)
//	otherwise              -> SHA256(0x01 || root(left) || root(right))   split on the next key bit
//
// Values are hashed as they are (the state tree stores 32-byte hashes of the values, the
// event tree stores variable length values); an entry with an empty value is "absent".
package ref39

import (
	"bytes"
	"crypto/sha256"
	"sort"
)

// EmptyHash is the root of the empty map.
var EmptyHash = func() []byte { s := sha256.Sum256(nil); return s[:] }()

// LeafHash is H(0x00 || key || value).
func LeafHash(key, value []byte) []byte {
	h := sha256.New()
	h.Write([]byte{0})
	h.Write(key)
	h.Write(value)
	return h.Sum(nil)
}

// BranchHash is H(0x01 || left || right).
func BranchHash(l, r []byte) []byte {
	h := sha256.New()
	h.Write([]byte{1})
	h.Write(l)
	h.Write(r)
	return h.Sum(nil)
}

// Entry is one key/value pair.
type Entry struct{ Key, Value []byte }

// Sorted returns the entries of m (string(key) -> value) sorted by key; entries with an
// empty value are dropped.
func Sorted(m map[string][]byte) []Entry {
	es := make([]Entry, 0, len(m))
	for k, v := range m {
		if len(v) == 0 {
			continue
		}
		es = append(es, Entry{Key: []byte(k), Value: v})
	}
	sort.Slice(es, func(i, j int) bool { return bytes.Compare(es[i].Key, es[j].Key) < 0 })
	return es
}

// Root returns the LIP-0039 root of the map. All keys must have the same length.
func Root(m map[string][]byte) []byte { return RootSorted(Sorted(m)) }

// RootSorted is Root for entries already sorted by key (distinct keys, equal length).
func RootSorted(es []Entry) []byte { return rec(es, 0) }

func bit(key []byte, i int) bool { return key[i/8]&(0x80>>uint(i%8)) != 0 }

func rec(es []Entry, depth int) []byte {
	switch len(es) {
	case 0:
		return EmptyHash
	case 1:
		return LeafHash(es[0].Key, es[0].Value)
	}
	// sorted by key and all share the first depth bits => the entries whose next bit is 0
	// come first
	split := sort.Search(len(es), func(i int) bool { return bit(es[i].Key, depth) })
	return BranchHash(rec(es[:split], depth+1), rec(es[split:], depth+1))
}

// Depth returns the depth (number of branch nodes above) of the node that decides key in
// the tree of es: the leaf holding key, the other leaf found on its path, or the empty slot.
// kind is "leaf" (key present), "other" (another leaf on the path) or "empty".
func Depth(es []Entry, key []byte) (depth int, kind string) {
	d := 0
	for {
		switch len(es) {
		case 0:
			return d, "empty"
		case 1:
			if bytes.Equal(es[0].Key, key) {
				return d, "leaf"
			}
			return d, "other"
		}
		split := sort.Search(len(es), func(i int) bool { return bit(es[i].Key, d) })
		if bit(key, d) {
			es = es[split:]
		} else {
			es = es[:split]
		}
		d++
	}
}
