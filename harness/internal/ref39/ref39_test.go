package ref39

import (
	"bytes"
	"encoding/hex"
	"encoding/json"
	"os"
	"path/filepath"
	"testing"
)

type fx struct {
	TestCases []struct {
		Input struct {
			Keys       []string `json:"keys"`
			Values     []string `json:"values"`
			DeleteKeys []string `json:"deleteKeys"`
		} `json:"input"`
		Output struct {
			MerkleRoot string `json:"merkleRoot"`
		} `json:"output"`
	} `json:"testCases"`
}

func repo() string {
	if r := os.Getenv("VERIF_REPO"); r != "" {
		return r
	}
	return "/repo"
}

func unhex(t *testing.T, s string) []byte {
	b, err := hex.DecodeString(s)
	if err != nil {
		t.Fatal(err)
	}
	return b
}

// The reference must reproduce every expected root of the (non-empty) LIP-0039 fixture
// files shipped with lisk-engine; this involves no lisk-engine code.
func TestAgainstFixtures(t *testing.T) {
	total := 0
	for _, f := range []string{"smt_fixtures.json", "update_tree.json", "remove_extra_tree.json", "smt_proof_fixtures.json", "smt_invalid_proof_fixtures.json"} {
		b, err := os.ReadFile(filepath.Join(repo(), "pkg/trie/smt/fixtures", f))
		if err != nil {
			t.Fatal(err)
		}
		var x fx
		if err := json.Unmarshal(b, &x); err != nil {
			t.Fatal(err)
		}
		if len(x.TestCases) == 0 {
			t.Fatalf("%s: no cases", f)
		}
		for i, tc := range x.TestCases {
			m := map[string][]byte{}
			for j, k := range tc.Input.Keys {
				m[string(unhex(t, k))] = unhex(t, tc.Input.Values[j])
			}
			for _, k := range tc.Input.DeleteKeys {
				delete(m, string(unhex(t, k)))
			}
			if got := Root(m); !bytes.Equal(got, unhex(t, tc.Output.MerkleRoot)) {
				t.Errorf("%s case %d: got %x want %s", f, i, got, tc.Output.MerkleRoot)
			}
			total++
		}
	}
	t.Logf("%d fixture roots reproduced", total)
}
