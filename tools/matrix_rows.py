#!/usr/bin/env python3
"""tools/matrix_rows.py <id>...  - print DESIGN.md 8.4 table rows from seeded/<id>/meta.json."""
import json, sys
for sid in sys.argv[1:]:
    m = json.load(open(f"/verif/seeded/{sid}/meta.json"))
    det = m.get("detection", {})
    keys = ", ".join(f"`{k[:100]}`" for k in det.get("violation_keys", [])[:2])
    cross = [p for p, c in det.get("cross", {}).items() if c.get("result") == "DETECTED"]
    if det.get("result") == "DETECTED":
        by = m["property"] + (f" (also {', '.join(cross)})" if cross else "")
    elif cross:
        by = "**" + ", ".join(cross) + "** (not " + m["property"] + ")"
        keys = ", ".join(f"`{k[:100]}`" for p in cross for k in det["cross"][p].get("violation_keys", [])[:1])
    else:
        by = "**MISSED**"
    summ = m["summary"].replace("|", "/").replace("\n", " ")[:230]
    needs = m.get("needs", "").replace("|", "/").replace("\n", " ")[:200]
    note = m.get("note", "")
    print(f"| {sid} | {summ} | {by} | {keys} | {needs}{'; ' + note if note else ''} |")
