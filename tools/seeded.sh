#!/bin/bash
# tools/seeded.sh <seeded-id> [quick|thorough]  - run the property's check against a scratch
# copy of /repo with seeded/<id>/patch.diff applied; prints DETECTED / MISSED.
set -u
cd "$(dirname "$0")/.."
ID="${1:?seeded id}"; TIER="${2:-quick}"
D="seeded/$ID"
PROP=$(python3 -c "import json;print(json.load(open('$D/meta.json'))['property'])")
[ -n "${3:-}" ] && PROP="$3"   # cross-check: run another property's check against this change
W=/dev/shm/seeded-$ID${3:+-$3}
rm -rf "$W" "$W.verif-out"; mkdir -p "$W"
git -C /repo archive HEAD | tar -x -C "$W"
# untracked hook files of /repo (if any) are needed by the workers too
( cd /repo && git ls-files --others --exclude-standard | grep '_verif.go$' | while read f; do mkdir -p "$W/$(dirname $f)"; cp "$f" "$W/$f"; done )
( cd "$W" && git init -q . 2>/dev/null; git apply "$OLDPWD/$D/patch.diff" ) || { echo "APPLY-FAILED $ID"; rm -rf "$W"; exit 2; }
OUT=$(VERIF_REPO="$W" ./check "$PROP" "$TIER" 2>&1)
rc=$?
echo "$OUT" | grep -E "^violation key=|VIOLATION|$PROP $TIER" | head -8
if [ $rc -eq 1 ]; then echo "DETECTED $ID ($PROP)"; else echo "MISSED $ID ($PROP) rc=$rc"; fi
H=$(echo "$W" | md5sum | cut -c1-10); rm -rf "$W" "$W.verif-out" "bin/alt-$H"
exit 0
