#!/bin/bash
# tools/sweep.sh <seed> [outdir]  - run every claimed quick check once; with an outdir the
# evidence/replay files go there instead of /verif (so committed evidence is not overwritten)
cd "$(dirname "$0")/.."
S="${1:-1}"; OUT="${2:-}"
for p in $(python3 -c "import json;print(' '.join(c['property_id'] for c in json.load(open('MANIFEST.json'))['checks']))"); do
  t0=$(date +%s)
  if [ -n "$OUT" ]; then mkdir -p "$OUT"; R=$(VERIF_SEED=$S VERIF_OUT="$OUT" ./check $p quick 2>&1); else R=$(VERIF_SEED=$S ./check $p quick 2>&1); fi
  rc=$?
  echo "$p rc=$rc $(( $(date +%s)-t0 ))s | $(echo "$R" | grep -v '^KNOWN' | tail -1 | cut -c1-220)"
  echo "$R" | grep -E "^VIOLATION|^violation key|BROKEN" | head -5
done
