#!/usr/bin/env python3
"""tools/record_seeds.py <confirm-log-dir> <id>...  - run tools/seeded.sh for each seeded change and
write the confirmation (from confirm_seed.sh's log) and detection record into its meta.json.
Optional env RECORD_PROP=<Cxx>: run that property's check instead of the seed's own (cross catch)."""
import json, os, re, subprocess, sys

CONF_HOW = ("tools/confirm_seed.sh: scratch git worktree of /repo HEAD; demo passes unchanged, patch applies, "
            "go build ./... ok, demo fails with the change, go test of the touched packages and of every package "
            "importing them passes (baseline always-fail and known flaky tests excepted)")

def main():
    logdir, ids = sys.argv[1], sys.argv[2:]
    for sid in ids:
        mp = f"/verif/seeded/{sid}/meta.json"
        m = json.load(open(mp))
        log = os.path.join(logdir, sid + ".log")
        if os.path.exists(log):
            last = open(log).read().strip().splitlines()[-1]
            m["confirmed"] = {"how": CONF_HOW, "result": "CONFIRMED" if last.startswith("CONFIRMED") else last}
        cross = os.environ.get("RECORD_PROP", "")
        cmd = ["./tools/seeded.sh", sid, "quick"] + ([cross] if cross else [])
        out = subprocess.run(cmd, cwd="/verif", capture_output=True, text=True).stdout
        keys = []
        for k in re.findall(r"^violation key=(\S+)", out, re.M):
            if k not in keys:
                keys.append(k)
        res = "DETECTED" if f"DETECTED {sid}" in out else "MISSED"
        det = m.get("detection", {})
        if cross:
            det.setdefault("cross", {})[cross] = {"command": f"tools/seeded.sh {sid} quick {cross}  (= ./check {cross} quick against a scratch copy with patch.diff applied)", "result": res, "violation_keys": keys}
        else:
            det.update({"command": f"tools/seeded.sh {sid} quick  (= ./check {m['property']} quick against a scratch copy with patch.diff applied)",
                        "result": res, "violation_keys": keys})
        m["detection"] = det
        json.dump(m, open(mp, "w"), indent=1)
        print(sid, res, keys[:3], flush=True)

main()
