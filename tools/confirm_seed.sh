#!/bin/bash
# tools/confirm_seed.sh <src-dir-with-patch.diff,demo,meta.json> <seeded-id>
# Confirms a seeded change in a scratch worktree of /repo: patch applies, repo builds, the tests of
# the touched packages and of the packages importing them pass, the demo fails with the change and
# passes without. On success copies it to /verif/seeded/<id>/.
set -u
SRC="${1:?}"; ID="${2:?}"
export GOFLAGS=-mod=mod GOPROXY=off GOSUMDB=off GOTOOLCHAIN=local
W=/tmp/confirm-$ID
git -C /repo worktree remove --force "$W" 2>/dev/null; rm -rf "$W"
git -C /repo worktree add -q --detach "$W" HEAD || exit 2
cleanup() { git -C /repo worktree remove --force "$W" 2>/dev/null; rm -rf "$W"; }
cd "$W"
DEMO_DIR=$(python3 -c "import json;print(json.load(open('$SRC/meta.json')).get('demo_dir','').rstrip('/'))")
DEMO_CMD=$(python3 -c "import json;print(json.load(open('$SRC/meta.json'))['demo_cmd'])")
[ -z "$DEMO_DIR" ] && { echo "no demo_dir"; cleanup; exit 2; }
DEMO_DIR=${DEMO_DIR#./}
cp "$SRC"/demo_test.go "$DEMO_DIR/zz_seed_demo_test.go" 2>/dev/null || cp "$SRC"/*_test.go "$DEMO_DIR/" || { echo "no demo file"; cleanup; exit 2; }
run_demo() { ( cd "$W" && timeout 900 bash -c "$DEMO_CMD -timeout 14m" ) > "$W/.demo.out" 2>&1; echo $?; }
echo "== demo on unchanged tree"; R0=$(run_demo); echo "rc=$R0"
git apply --check "$SRC/patch.diff" || { echo "PATCH-DOES-NOT-APPLY"; cleanup; exit 3; }
git apply "$SRC/patch.diff"
echo "== build"; go build ./... || { echo "BUILD-FAILS"; cleanup; exit 4; }
echo "== demo with change"; R1=$(run_demo); echo "rc=$R1"; tail -5 "$W/.demo.out"
rm -f "$DEMO_DIR/zz_seed_demo_test.go"
# touched packages and their importers that have tests
PKGS=$(git diff --name-only | grep '\.go$' | xargs -n1 dirname | sort -u | sed 's#^#./#')
IMPORTERS=$(for p in $PKGS; do ip=github.com/LiskHQ/lisk-engine/${p#./}; go list -f '{{.ImportPath}} {{join .Imports " "}} {{join .TestImports " "}}' ./pkg/... 2>/dev/null | grep " $ip\( \|$\)" | cut -d' ' -f1; done | sort -u)
echo "== existing tests: $PKGS $IMPORTERS"
T=$(timeout 3000 go test -vet=off -count=1 -timeout 45m $PKGS $IMPORTERS 2>&1 | grep -E "^(--- FAIL|FAIL|ok|panic)" )
echo "$T" | grep -v "^ok" | head
BAD=$(echo "$T" | grep -E "^--- FAIL" | grep -v -E "TestGenerateProof|TestVerifyProof|TestGenerateProofJumboFixture|TestRemoveTreeFixture|TestHTTPServer|TestConnGater|TestConneGater" | wc -l)
cd /verif
if [ "$R0" = "0" ] && [ "$R1" != "0" ] && [ "$BAD" = "0" ]; then
  mkdir -p "seeded/$ID"; cp "$SRC/patch.diff" "$SRC/meta.json" "seeded/$ID/"; cp "$SRC"/demo_test.go "seeded/$ID/" 2>/dev/null || cp "$SRC"/*_test.go "seeded/$ID/"
  echo "CONFIRMED $ID"
else
  echo "NOT-CONFIRMED $ID (demo unchanged rc=$R0, with change rc=$R1, unexpected test failures=$BAD)"
fi
cleanup
