#!/usr/bin/env python3
"""Regenerates /verif/MANIFEST.json from tools/checks.json (claimed checks) + properties.jsonl."""
import json, subprocess, os
root = os.path.dirname(os.path.dirname(os.path.abspath(__file__)))
props = [json.loads(l)['id'] for l in open(os.path.join(root, 'properties.jsonl'))]
checks = json.load(open(os.path.join(root, 'tools', 'checks.json')))
hooks = subprocess.run(['git', '-C', '/repo', 'log', '--format=%h %s'], capture_output=True, text=True).stdout.splitlines()
hook_commits = [l.split()[0] for l in hooks if l.split(' ', 1)[1].startswith('verif hooks')]
m = {
 "version": 1,
 "setup_cmd": "cd /verif && ./setup.sh",
 "hooks": {
  "guard": "verif",
  "enable": "go build -tags verif: workers are built inside /verif/harness whose go.mod replaces github.com/LiskHQ/lisk-engine with /repo (current working tree). Hook code = new files *_verif.go with //go:build verif (exports only) plus five inert '// gofail:' comment failpoints that only become code in a scratch copy after 'gofail enable'",
  "baseline_off_cmd": "for m in $(cat /w/out/gomods.txt); do MF=$(cd /repo/$m && . /w/out/goenv.sh && gomodflag); (cd /repo/$m && go test $MF -json -vet=off -count=1 -timeout 25m ./...); done",
  "source_commits": hook_commits[::-1],
  "add_only": True
 },
 "engines": [{"name": "verifharness", "path": "/verif/harness", "serves_properties": [c['property_id'] for c in checks['checks']],
              "kind_free_text": "Go harness module: internal/mon (shard children, journal, panic/crash attribution, deadlock rule, race-log parser, evidence), internal/node (node-in-a-process, scripted application, block factory), reference models, one worker per property under cmd/"}],
 "checks": [],
 "notes": checks.get('notes', ''),
 "not_applicable": []
}
claimed = set()
for c in checks['checks']:
    pid = c['property_id']
    claimed.add(pid)
    m['checks'].append({
        "property_id": pid,
        "quick_cmd": f"./check {pid} quick",
        "thorough_cmd": f"./check {pid} thorough",
        "evidence_file": f"/verif/evidence/{pid}.json",
        "replay_cmd_template": f"./check {pid} --replay {{path}}",
        "engine": "verifharness",
        "level_claimed": {"category": c.get('category', 'exploration'), "text": c['text'], "design_ref": c.get('design_ref', f"DESIGN.md section 4 {pid}")},
        "level_note": c['note'],
        "technique": c['technique'],
    })
na = checks.get('not_applicable', {})
for p in props:
    if p not in claimed:
        m['not_applicable'].append({"property_id": p, "reason": na.get(p, "check not built yet (work in progress); no claim is made")})
json.dump(m, open(os.path.join(root, 'MANIFEST.json'), 'w'), indent=1)
print("claimed:", sorted(claimed))
